// meta_dump: C13/C14.  Compiled once per generated schema (prefix "gen", namespace GEN).  Reads queries, answers from the compiled
// metadata through F8MetaCntx / message reflection only:
//   F <fnum>            -> N <fnum> <name hex> <has realm> <realm size>        (field table)
//   V <fnum> <value hex>-> E <fnum> <value hex> <realm index or -1> <description hex>
//   M <msgtype>         -> M <msgtype> <name hex> <admin>  and  S <path> <fnum>:<ftype>:<pos>:<mandatory>:<group>,...  for the body, every
//                          nested group definition (path msgtype/count/count...), and once for header and trailer
#include <fix8/f8includes.hpp>
#include "gen_types.hpp"
#include "gen_router.hpp"
#include "gen_classes.hpp"
#include "vh.hpp"
#include <iostream>
#include <sstream>

using namespace FIX8;

static void dump_section(const std::string& path, MessageBase *mb)
{
	std::vector<const FieldTrait *> v;
	for (auto& ft : mb->get_fp().get_presence()) v.push_back(&ft);
	std::sort(v.begin(), v.end(), [](const FieldTrait *a, const FieldTrait *b) { return a->_pos < b->_pos; });
	printf("S %s ", path.c_str());
	for (auto *ft : v) printf("%u:%d:%u:%d:%d,", ft->_fnum, (int)ft->_ftype, ft->_pos, ft->_field_traits.has(FieldTrait::mandatory) ? 1 : 0, ft->_field_traits.has(FieldTrait::group) ? 1 : 0);
	printf("\n");
	for (auto *ft : v) if (ft->_field_traits.has(FieldTrait::group)) {
		GroupBase *gb = mb->find_add_group(ft->_fnum);
		if (!gb) { printf("X %s/%u no-group-instance\n", path.c_str(), ft->_fnum); continue; }
		std::unique_ptr<MessageBase> el(gb->create_group(true));
		dump_section(path + "/" + std::to_string(ft->_fnum), el.get());
	}
}

int main()
{
	const F8MetaCntx& ctx = GEN::ctx();
	GlobalLogger::set_levels(Logger::Levels(Logger::None));
	std::string line; bool ht = false;
	printf("B %s\n", ctx._beginStr.c_str());
	while (std::getline(std::cin, line)) {
		std::istringstream is(line); std::string k; is >> k;
		try {
			if (k == "F") {
				unsigned f; is >> f;
				const BaseEntry *be = ctx.find_be((unsigned short)f);
				if (!be) { printf("N %u - 0 0\n", f); continue; }
				printf("N %u %s %d %d\n", f, vh::hex(be->_name).c_str(), be->_rlm ? 1 : 0, be->_rlm ? be->_rlm->_sz : 0);
			} else if (k == "V") {
				unsigned f; std::string hv; is >> f >> hv;
				const std::string val = vh::unhex(hv);
				std::unique_ptr<BaseField> fld(ctx.create_field((unsigned short)f, val.c_str()));
				if (!fld) { printf("E %u %s -2 -\n", f, hv.c_str()); continue; }
				const int idx = fld->get_rlm_idx();
				const BaseEntry *be = ctx.find_be((unsigned short)f);
				printf("E %u %s %d %s\n", f, hv.c_str(), idx, idx >= 0 && be && be->_rlm ? vh::hex(be->_rlm->_descriptions[idx]).c_str() : "-");
			} else if (k == "M") {
				std::string mt; is >> mt;
				const BaseMsgEntry *bme = ctx._bme.find_ptr(mt.c_str());
				if (!bme) { printf("M %s - -1\n", mt.c_str()); continue; }
				std::unique_ptr<Message> m(bme->_create._do(true));
				printf("M %s %s %d\n", mt.c_str(), vh::hex(bme->_name).c_str(), (int)m->is_admin());
				dump_section(mt, m.get());
				if (!ht) { ht = true; dump_section("header", m->Header()); dump_section("trailer", m->Trailer()); }
			}
		} catch (const std::exception& e) { printf("X %s exception %s\n", line.c_str(), e.what()); }
	}
	printf("DONE\n");
	return 0;
}
