// session_sim: one real fix8 Session (UTEST = FIX.4.2 schema) on a real Client/ServerConnection over a loopback TCP pair, process model
// pm_coro (no reader/writer threads: every send runs synchronously through FIXWriter::write -> Session::send_process -> socket; inbound
// messages are injected with Session::process after update_received(), exactly what FIXReader::read + execute do), timer thread stopped,
// virtual wall clock.  Interactive co-process: commands on stdin, observations on stdout, each command answered by lines and then ".".
// Used by C16 C17 C18 C19 C20 C22 C23 (python models in checks/session.py).
//
// commands:
//   NEW role=I|A sci=<own compid> tci=<peer compid> hb=<s> persist=file|mem|none enforce=0|1 clients=a,b|- resetflag=0|1
//       sendseq=<n> recvseq=<n> purge=0|1 ignseq=0|1      create + start (an initiator sends its Logon here)
//   IN <hex>            inbound message: update_received(); process()
//   SEND <id>           application send (NewOrderSingle, ClOrdID=<id>)
//   BATCH <id>...       send_batch of NewOrderSingles
//   SENDNI <id>         application send with no_increment=true
//   HB / TESTREQ <id>   administrative sends
//   TICK                heartbeat_service()
//   ADV <ms>            advance the virtual clock
//   Q                   counters, state, persisted control record
//   GET <n>             persister read-back of message n
//   CLOSE               destroy session and connection (file store stays on disk, the memory store of an initiator is kept)
//   WIPE                forget stores (new case)
//   SID <b1> <s1> <t1> <b2> <s2> <t2>   SessionID comparison
// observations:
//   W <hex>             bytes the session put on the socket during the command
//   APP <seq> <msgtype> <id> <possdup>   handle_application entered
//   DELIV <id> <seq> <possdup>           the application router callback ran (= delivered)
//   STATE <from> <to>   state change
//   R <0|1> / S <n> / T <0|1> / EXC <text> / Q ... / G ...
#include <fix8/f8includes.hpp>
#include "utest_types.hpp"
#include "utest_router.hpp"
#include "utest_classes.hpp"
#include "vh.hpp"
#include <dlfcn.h>
#include <fcntl.h>
#include <poll.h>
#include <sys/socket.h>
#include <netinet/in.h>
#include <netinet/tcp.h>
#include <arpa/inet.h>
#include <atomic>
#include <iostream>
#include <sstream>
#include <Poco/Net/StreamSocketImpl.h>

using namespace FIX8;

// ---------------------------------------------------------------------------------------- interposers
static std::atomic<bool> g_clock_armed{false};
static std::atomic<long long> g_now_ns{1700000000LL * 1000000000LL};	// virtual CLOCK_REALTIME
static std::atomic<bool> g_short_sleeps{true};

extern "C" int clock_gettime(clockid_t id, struct timespec *ts)
{
	typedef int (*fn_t)(clockid_t, struct timespec *);
	static fn_t real = (fn_t)dlsym(RTLD_NEXT, "clock_gettime");
	if (id == CLOCK_REALTIME && g_clock_armed.load(std::memory_order_relaxed)) {
		const long long n = g_now_ns.load(std::memory_order_relaxed);
		ts->tv_sec = n / 1000000000LL; ts->tv_nsec = n % 1000000000LL;
		return 0;
	}
	return real(id, ts);
}

extern "C" int clock_nanosleep(clockid_t id, int flags, const struct timespec *req, struct timespec *rem)
{
	typedef int (*fn_t)(clockid_t, int, const struct timespec *, struct timespec *);
	typedef int (*gt_t)(clockid_t, struct timespec *);
	static fn_t real = (fn_t)dlsym(RTLD_NEXT, "clock_nanosleep");
	static gt_t rgt = (gt_t)dlsym(RTLD_NEXT, "clock_gettime");
	if (g_short_sleeps.load(std::memory_order_relaxed) && (flags & TIMER_ABSTIME)) {
		timespec now; rgt(id, &now);
		const long long d = (req->tv_sec - now.tv_sec) * 1000000000LL + (req->tv_nsec - now.tv_nsec);
		if (d > 20000000LL) {	// the 1 s ~Session and 250 ms stop() sleeps serve threads this harness does not have
			timespec t = now; t.tv_nsec += 1000000; if (t.tv_nsec >= 1000000000L) { t.tv_nsec -= 1000000000L; ++t.tv_sec; }
			return real(id, flags, &t, rem);
		}
	}
	return real(id, flags, req, rem);
}

// ---------------------------------------------------------------------------------------- session under observation
static std::vector<std::string> g_events;
static void ev(const std::string& s) { g_events.push_back(s); }

struct SimRouter : UTEST::utest_Router {
	bool operator()(const UTEST::NewOrderSingle *m) const override {
		UTEST::ClOrdID id; m->get(id);
		msg_seq_num sn; m->Header()->get(sn);
		poss_dup_flag pd(false); m->Header()->get(pd);
		ev("DELIV " + id() + " " + std::to_string(sn()) + " " + (pd() ? "Y" : "N"));
		return true;
	}
};

class SimSession : public Session {
	SimRouter _router;
public:
	SimSession(const F8MetaCntx& ctx, const SessionID& sid, Persister *p) : Session(ctx, sid, p) { quiet(); }
	SimSession(const F8MetaCntx& ctx, const sender_comp_id& sci, Persister *p) : Session(ctx, sci, p) { quiet(); }
	void quiet() { _timer.clear(); _timer.stop(); _timer.join(); }
	bool handle_application(const unsigned seqnum, const Message *&msg) override {
		std::string id = "-";
		UTEST::ClOrdID cid; if (msg->get(cid)) id = cid();
		poss_dup_flag pd(false); msg->Header()->get(pd);
		ev("APP " + std::to_string(seqnum) + " " + msg->get_msgtype() + " " + id + " " + (pd() ? "Y" : "N"));
		return enforce(seqnum, msg) || msg->process(_router);	// the documented idiom
	}
	void state_change(const States::SessionStates before, const States::SessionStates after) override {
		ev("STATE " + get_session_state_string(before) + " " + get_session_state_string(after));
	}
	bool tick() { return heartbeat_service(); }
	unsigned next_send() const { return _next_send_seq; }
	unsigned next_recv() const { return _next_receive_seq; }
	States::SessionStates st() const { return _state; }
	Persister *persister() { return _persist; }
	Message *mk_hb(const f8String& id) { return generate_heartbeat(id); }
	Message *mk_tr(const f8String& id) { return generate_test_request(id); }
	long long last_sent_s() const { return _last_sent.secs(); }
	long long last_recv_s() const { return _last_received.secs(); }
};

struct Sim {
	std::unique_ptr<SimSession> ses;
	Connection *conn = nullptr;
	Poco::Net::StreamSocket *sock = nullptr;
	int peer = -1, lsn = -1;
	bool initiator = false;
	std::string dir, persist_kind;
	Persister *ini_persist = nullptr;	// initiator side: owned here (the acceptor session deletes its own)
	MemoryPersister *mem_keep = nullptr;

	void open_listener() {
		lsn = socket(AF_INET, SOCK_STREAM, 0);
		int one = 1; setsockopt(lsn, SOL_SOCKET, SO_REUSEADDR, &one, sizeof one);
		sockaddr_in a{}; a.sin_family = AF_INET; a.sin_addr.s_addr = htonl(INADDR_LOOPBACK); a.sin_port = 0;
		if (bind(lsn, (sockaddr *)&a, sizeof a) || listen(lsn, 4)) { perror("listen"); exit(2); }
	}
	unsigned short lport() { sockaddr_in a{}; socklen_t l = sizeof a; getsockname(lsn, (sockaddr *)&a, &l); return ntohs(a.sin_port); }

	std::string drain() {
		std::string out; char buf[65536];
		if (peer < 0) return out;
		for (;;) {
			pollfd p{peer, POLLIN, 0};
			if (poll(&p, 1, 0) <= 0) break;
			ssize_t n = recv(peer, buf, sizeof buf, MSG_DONTWAIT);
			if (n <= 0) break;
			out.append(buf, n);
		}
		return out;
	}
	void close_all() {
		if (ses) { try { ses->stop(); } catch (...) {} }
		std::string rest = drain();
		delete conn; conn = nullptr;
		ses.reset();
		delete sock; sock = nullptr;
		if (peer >= 0) { ::close(peer); peer = -1; }
		if (lsn >= 0) { ::close(lsn); lsn = -1; }
		if (ini_persist && ini_persist != mem_keep) { delete ini_persist; }
		ini_persist = nullptr;
	}
};

static Sim S;
static void reply_events(const std::string& wire)
{
	for (auto& e : g_events) printf("%s\n", e.c_str());
	g_events.clear();
	if (!wire.empty()) printf("W %s\n", vh::hex(wire).c_str());
}
static void done() { printf(".\n"); fflush(stdout); }

static std::map<std::string, std::string> kv(std::istringstream& is)
{
	std::map<std::string, std::string> m; std::string t;
	while (is >> t) { auto e = t.find('='); if (e != std::string::npos) m[t.substr(0, e)] = t.substr(e + 1); }
	return m;
}

static Message *mk_order(const std::string& id)
{
	auto *nos = new UTEST::NewOrderSingle;
	*nos << new UTEST::ClOrdID(id) << new UTEST::TransactTime << new UTEST::HandlInst('1') << new UTEST::Symbol("SYM")
		  << new UTEST::OrdType('1') << new UTEST::Side('1') << new UTEST::OrderQty(100);
	return nos;
}

static Persister *make_persister(const std::string& kind, const std::string& dir, const std::string& name, bool purge, bool keep_mem)
{
	if (kind == "file") {
		auto *fp = new FilePersister;
		if (!fp->initialise(dir, name, purge)) { printf("EXC persister-initialise-failed\n"); delete fp; return nullptr; }
		return fp;
	}
	if (kind == "mem") {
		if (keep_mem) { if (!S.mem_keep) S.mem_keep = new MemoryPersister; return S.mem_keep; }
		return new MemoryPersister;
	}
	return nullptr;
}

int main(int argc, char **argv)
{
	vh::Args a(argc, argv);
	S.dir = a.str("dir", ".");
	setvbuf(stdout, nullptr, _IOFBF, 1 << 16);
	signal(SIGPIPE, SIG_IGN);
	g_clock_armed = true;
	// The global logger is silenced: a short-lived thread that logs (every Session's timer thread logs "Terminating Timer thread" as it
	// exits) allocates the line from its own FastFlow per-thread allocator, which its exit tears down while the logger thread may still
	// be freeing that line (ASan: heap-use-after-free in ff::SlabCache::deregisterAllocator, about once per 3000 session teardowns).
	// That hazard is real but belongs to none of the session properties decided here; it is described in DESIGN.md.
	GlobalLogger::set_levels(Logger::Levels(Logger::None));
	std::string line;
	long long ncase = 0;
	while (std::getline(std::cin, line)) {
		std::istringstream is(line);
		std::string cmd; is >> cmd;
		try {
			if (cmd == "CASE") { is >> ncase; fprintf(stderr, "@CASE %lld\n", ncase); alarm(60); }
			else if (cmd == "CLOCK") { long long s; is >> s; g_now_ns = s * 1000000000LL; }
			else if (cmd == "NEW") {
				auto m = kv(is);
				S.close_all();
				S.initiator = m["role"] == "I";
				S.persist_kind = m["persist"];
				const std::string sci = m["sci"], tci = m["tci"];
				const unsigned hb = (unsigned)atoi(m["hb"].c_str());
				const std::string pname = std::string("store.") + (S.initiator ? "I" : "A");
				Persister *p = make_persister(m["persist"], S.dir, pname, m["purge"] == "1", S.initiator);
				LoginParameters lp;
				lp._enforce_compids = m["enforce"] != "0";
				lp._reset_sequence_numbers = m["resetflag"] == "1";
				lp._always_seqnum_assign = false;
				lp._login_retries = 1; lp._connect_timeout = 2;
				if (m.count("clients") && m["clients"] != "-") {
					std::istringstream cs(m["clients"]); std::string c;
					while (std::getline(cs, c, ',')) lp._clients.insert({c, Client(c, Poco::Net::IPAddress())});
				}
				S.open_listener();
				Poco::Net::SocketAddress addr("127.0.0.1", S.lport());
				if (S.initiator) {
					S.ini_persist = p;
					SessionID sid(UTEST::ctx()._beginStr, sci, tci);
					S.ses.reset(new SimSession(UTEST::ctx(), sid, p));
					S.ses->set_login_parameters(lp);
					S.sock = new Poco::Net::StreamSocket;
					S.conn = new ClientConnection(S.sock, addr, *S.ses, hb, pm_coro, true);
					// start() connects (the listener backlog completes the handshake) and sends the Logon
					const int rc = S.ses->start(S.conn, false, (unsigned)atoi(m["sendseq"].c_str()), (unsigned)atoi(m["recvseq"].c_str()));
					S.peer = accept(S.lsn, nullptr, nullptr);
					printf("START %d\n", rc);
				} else {
					S.peer = socket(AF_INET, SOCK_STREAM, 0);
					sockaddr_in sa{}; sa.sin_family = AF_INET; sa.sin_addr.s_addr = htonl(INADDR_LOOPBACK); sa.sin_port = htons(S.lport());
					if (connect(S.peer, (sockaddr *)&sa, sizeof sa)) { perror("connect"); return 2; }
					const int fd = accept(S.lsn, nullptr, nullptr);
					S.sock = new Poco::Net::StreamSocket(new Poco::Net::StreamSocketImpl(fd));
					S.ses.reset(new SimSession(UTEST::ctx(), sender_comp_id(sci), p));
					S.ses->set_login_parameters(lp);
					S.conn = new ServerConnection(S.sock, addr, *S.ses, hb, pm_coro, true);
					const int rc = S.ses->start(S.conn, false, (unsigned)atoi(m["sendseq"].c_str()), (unsigned)atoi(m["recvseq"].c_str()));
					printf("START %d\n", rc);
				}
				int one = 1; setsockopt(S.peer, IPPROTO_TCP, TCP_NODELAY, &one, sizeof one);
				reply_events(S.drain());
			}
			else if (cmd == "IN") {
				std::string hx; is >> hx;
				const f8String msg(vh::unhex(hx));
				S.ses->update_received();
				bool r = false;
				try { r = S.ses->process(msg); printf("R %d\n", r ? 1 : 0); }
				catch (const f8Exception& e) { printf("EXC f8 %s\n", e.what()); }
				catch (const std::exception& e) { printf("EXC std %s\n", e.what()); }
				reply_events(S.drain());
			}
			else if (cmd == "SEND") {
				std::string id; is >> id;
				const bool r = S.ses->send(mk_order(id));
				printf("S %d\n", r ? 1 : 0);
				reply_events(S.drain());
			}
			else if (cmd == "SENDNI") {	// application send that asks the session not to move its number on (send(msg, destroy, 0, no_increment))
				std::string id; is >> id;
				const bool r = S.ses->send(mk_order(id), true, 0, true);
				printf("S %d\n", r ? 1 : 0);
				reply_events(S.drain());
			}
			else if (cmd == "BATCH") {
				std::vector<Message *> v; std::string id;
				while (is >> id) v.push_back(mk_order(id));
				const size_t n = S.ses->send_batch(v);
				printf("S %zu\n", n);
				reply_events(S.drain());
			}
			else if (cmd == "HB") { const bool r = S.ses->send(S.ses->mk_hb("")); printf("S %d\n", r ? 1 : 0); reply_events(S.drain()); }
			else if (cmd == "TESTREQ") { std::string id; is >> id; const bool r = S.ses->send(S.ses->mk_tr(id)); printf("S %d\n", r ? 1 : 0); reply_events(S.drain()); }
			else if (cmd == "TICK") { const bool r = S.ses->tick(); printf("T %d\n", r ? 1 : 0); reply_events(S.drain()); }
			else if (cmd == "ADV") { long long ms; is >> ms; g_now_ns += ms * 1000000LL; }
			else if (cmd == "Q") {
				unsigned ps = 0, pr = 0; bool have = false;
				Persister *p = S.ses ? S.ses->persister() : nullptr;
				if (p) have = p->get(ps, pr);
				printf("Q send=%u recv=%u state=%s shutdown=%d control=%s lastsent=%lld lastrecv=%lld connected=%d\n", S.ses->next_send(), S.ses->next_recv(),
					Session::get_session_state_string(S.ses->st()).c_str(), S.ses->is_shutdown() ? 1 : 0,
					have ? (std::to_string(ps) + "," + std::to_string(pr)).c_str() : p ? "absent" : "nopersister",
					S.ses->last_sent_s(), S.ses->last_recv_s(), S.conn && S.conn->is_connected() ? 1 : 0);
			}
			else if (cmd == "GET") {
				unsigned n; is >> n;
				Persister *p = S.ses ? S.ses->persister() : nullptr;
				f8String to;
				if (p && p->get(n, to)) printf("G %u %s\n", n, vh::hex(to).c_str()); else printf("G %u none\n", n);
			}
			else if (cmd == "CLOSE") { S.close_all(); g_events.clear(); }
			else if (cmd == "WIPE") {
				S.close_all(); g_events.clear();
				delete S.mem_keep; S.mem_keep = nullptr;
				for (const char *n : {"store.I", "store.I.idx", "store.A", "store.A.idx"}) ::unlink((S.dir + "/" + n).c_str());
			}
			else if (cmd == "SID") {
				std::string b1, s1, t1, b2, s2, t2; is >> b1 >> s1 >> t1 >> b2 >> s2 >> t2;
				SessionID x(b1, s1, t1), y(b2, s2, t2);
				printf("SID eq=%d ne=%d selfeq=%d selfne=%d\n", x == y ? 1 : 0, x != y ? 1 : 0, x == x ? 1 : 0, x != x ? 1 : 0);
			}
			else if (cmd == "QUIT") break;
			else if (!cmd.empty()) printf("EXC unknown-command %s\n", cmd.c_str());
		} catch (const std::exception& e) { printf("EXC harness %s\n", e.what()); reply_events(S.drain()); }
		done();
	}
	S.close_all();
	return 0;
}
