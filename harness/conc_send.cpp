// conc_send: C25.  2..8 application threads send through ONE real Session (send(Message*) and send_batch) on a real ServerConnection
// (pm_thread and pm_pipeline) over loopback TCP; a wire-reader thread on the peer socket records the byte stream.  Oracle: MsgSeqNums on
// the wire are start..start+N-1, each once and in increasing wire order; every id transmitted exactly once; the stored copy under each
// number is the transmitted message; ThreadSanitizer (this harness is meant for the tsan flavour; it also runs under asan) reports races.
// In part of the cases the peer also sends ResendRequests while the threads are sending (one outstanding at a time): the replay runs on the
// session's reader thread concurrently with the senders' stores.  Oracle for the replay: every number below the highest one the peer had
// seen when it asked was stored by then (sends are serialised: a message is stored before the next one is written), so it must come back as
// a PossDup copy of what was transmitted, in ascending order; and no gap fill ever stands for an application message of the run.
#include <fix8/f8includes.hpp>
#include "utest_types.hpp"
#include "utest_router.hpp"
#include "utest_classes.hpp"
#include "vh.hpp"
#include <dlfcn.h>
#include <sys/socket.h>
#include <netinet/in.h>
#include <netinet/tcp.h>
#include <arpa/inet.h>
#include <poll.h>
#include <atomic>
#include <mutex>
#include <thread>
#include <Poco/Net/StreamSocketImpl.h>

using namespace FIX8;
static vh::Report R;

extern "C" int clock_nanosleep(clockid_t id, int flags, const struct timespec *req, struct timespec *rem)
{
	typedef int (*fn_t)(clockid_t, int, const struct timespec *, struct timespec *);
	typedef int (*gt_t)(clockid_t, struct timespec *);
	static fn_t real = (fn_t)dlsym(RTLD_NEXT, "clock_nanosleep");
	static gt_t rgt = (gt_t)dlsym(RTLD_NEXT, "clock_gettime");
	if (flags & TIMER_ABSTIME) {	// only the 1 s ~Session / 250 ms stop() sleeps are shortened: every thread is joined explicitly
		timespec now; rgt(id, &now);
		const long long d = (req->tv_sec - now.tv_sec) * 1000000000LL + (req->tv_nsec - now.tv_nsec);
		if (d > 100000000LL) { timespec t = now; t.tv_nsec += 2000000; if (t.tv_nsec >= 1000000000L) { t.tv_nsec -= 1000000000L; ++t.tv_sec; } return real(id, flags, &t, rem); }
	}
	return real(id, flags, req, rem);
}

class SendSession : public Session {
public:
	SendSession(const F8MetaCntx& ctx, const sender_comp_id& sci, Persister *p) : Session(ctx, sci, p) { _timer.clear(); _timer.stop(); _timer.join(); }
	bool handle_application(const unsigned, const Message *&) override { return true; }
	Persister *persister() { return _persist; }
	void set_ids() { _sid = SessionID(_ctx._beginStr, "SRV", "CLI"); }
	unsigned next_send() const { return _next_send_seq; }
};

static Message *mk_order(const std::string& id, size_t pad)
{
	auto *nos = new UTEST::NewOrderSingle;
	*nos << new UTEST::ClOrdID(id) << new UTEST::TransactTime << new UTEST::HandlInst('1') << new UTEST::Symbol("SYM")
		  << new UTEST::OrdType('1') << new UTEST::Side('1') << new UTEST::OrderQty(100);
	if (pad) *nos << new UTEST::Text(std::string(pad, 'x'));
	return nos;
}

static bool split(const std::string& b, std::vector<std::string>& out)
{
	size_t i = 0;
	while (i < b.size()) {
		if (b.compare(i, 2, "8=")) return false;
		size_t j = b.find("\x01" "9=", i); if (j == std::string::npos) return false;
		size_t k = b.find('\x01', j + 3); if (k == std::string::npos) return false;
		const long n = atol(b.c_str() + j + 3);
		const size_t end = k + 1 + (size_t)n + 7;
		if (n <= 0 || end > b.size()) return false;
		out.push_back(b.substr(i, end - i));
		i = end;
	}
	return true;
}
static std::string field(const std::string& m, const char *tag)
{
	const std::string k = std::string("\x01") + tag + "=";
	size_t p = m.find(k); if (p == std::string::npos) return "";
	p += k.size();
	return m.substr(p, m.find('\x01', p) - p);
}

static void one_case(long long n, uint64_t seed, const std::string& dir)
{
	vh::Rng r(seed * 65537 + n);
	R.case_mark(n);
	const ProcessModel pm = (n % 2) ? pm_thread : pm_pipeline;
	const bool filep = (n / 2) % 2;
	const int nthreads = (int)r.range(2, 8);
	const int per = (int)r.range(20, 200);
	const int batch_pct = (int)r.range(0, 50);
	const int delay_pct = (int)r.range(0, 40);
	int lsn = socket(AF_INET, SOCK_STREAM, 0);
	int one = 1; setsockopt(lsn, SOL_SOCKET, SO_REUSEADDR, &one, sizeof one);
	sockaddr_in a{}; a.sin_family = AF_INET; a.sin_addr.s_addr = htonl(INADDR_LOOPBACK); a.sin_port = 0;
	if (bind(lsn, (sockaddr *)&a, sizeof a) || listen(lsn, 2)) { perror("listen"); exit(2); }
	socklen_t l = sizeof a; getsockname(lsn, (sockaddr *)&a, &l);
	int peer = socket(AF_INET, SOCK_STREAM, 0);
	if (connect(peer, (sockaddr *)&a, sizeof a)) { perror("connect"); exit(2); }
	const int fd = accept(lsn, nullptr, nullptr);
	std::string wire;
	const unsigned first_seq_hint = 1;	// fresh stores: numbering starts at 1
	std::atomic<bool> stop_reader{false};
	std::atomic<long> seen_new{0};	// new application messages the wire reader has received completely
	const bool resend_mode = r.chance(45);
	const int resend_gap = (int)r.range(5, 60);	// new messages seen between the end of one answer and the next request
	struct Req { unsigned begin, end, seen_hi; size_t wire_msg_index; };
	std::vector<Req> reqs;	// written by the wire reader only; read after it is joined
	uint64_t req_seed = seed * 7919 + (uint64_t)n;
	std::thread wreader([&] {
		char buf[65536];
		vh::Rng rr(req_seed);
		size_t parsed = 0, nmsgs = 0; unsigned hi = 0, peer_seq = 1; bool outstanding = false; int since = 0;
		for (;;) {
			pollfd p{peer, POLLIN, 0};
			const int pr = poll(&p, 1, 20);
			if (pr > 0) { ssize_t k = recv(peer, buf, sizeof buf, 0); if (k < 0 && (errno == EINTR || errno == EAGAIN)) continue; if (k <= 0) break; wire.append(buf, (size_t)k); }
			else if (pr < 0 && errno == EINTR) continue;
			else if (stop_reader.load()) break;
			// incremental look at the complete messages received so far
			for (;;) {
				if (wire.size() < parsed + 20 || wire.compare(parsed, 2, "8=")) break;
				const size_t j = wire.find("\x01" "9=", parsed); if (j == std::string::npos) break;
				const size_t k = wire.find('\x01', j + 3); if (k == std::string::npos) break;
				const long bl = atol(wire.c_str() + j + 3);
				const size_t end = k + 1 + (size_t)bl + 7;
				if (bl <= 0 || end > wire.size()) break;
				const std::string m = wire.substr(parsed, end - parsed);
				parsed = end; ++nmsgs;
				const unsigned sq = (unsigned)atol(field(m, "34").c_str());
				const bool dup = field(m, "43") == "Y", gf = field(m, "35") == "4";
				if (!dup && !gf) { if (sq > hi) hi = sq; ++since; if (!field(m, "11").empty()) ++seen_new; }
				else if (outstanding && !reqs.empty()) {
					// the answer is complete once it has reached the last number that was certainly stored when we asked
					const unsigned upto = gf ? (unsigned)atol(field(m, "36").c_str()) - 1 : sq;
					// (a request 'to the latest' has no recognisable end: once its answer has reached what was certainly stored the next
					// request may follow, but from then on answers can overlap and only the rules that need no attribution are applied)
					if (upto >= (reqs.back().end ? reqs.back().end : reqs.back().seen_hi - 1)) { outstanding = false; since = 0; }
				}
			}
			if (resend_mode && !outstanding && since >= resend_gap && hi > first_seq_hint + 2 && reqs.size() < 12) {
				Req q; q.seen_hi = hi; q.begin = (unsigned)rr.range(first_seq_hint, hi - 1); q.end = rr.chance(40) ? 0 : (unsigned)rr.range(q.begin, hi - 1); q.wire_msg_index = nmsgs;
				char body[200], msg[300];
				Tickval tv(true); struct tm tmv; time_t secs = (time_t)tv.secs(); gmtime_r(&secs, &tmv);
				char ts[32]; strftime(ts, sizeof ts, "%Y%m%d-%H:%M:%S", &tmv);
				const int bn = snprintf(body, sizeof body, "35=2\x01" "49=CLI\x01" "56=SRV\x01" "34=%u\x01" "52=%s\x01" "7=%u\x01" "16=%u\x01", peer_seq++, ts, q.begin, q.end);
				int mn = snprintf(msg, sizeof msg, "8=FIX.4.2\x01" "9=%d\x01" "%s", bn, body);
				unsigned ck = 0; for (int i = 0; i < mn; ++i) ck += (unsigned char)msg[i];
				mn += snprintf(msg + mn, sizeof msg - mn, "10=%03u\x01", ck % 256);
				if (::send(peer, msg, (size_t)mn, MSG_NOSIGNAL) == mn) { reqs.push_back(q); outstanding = true; }
			}
		}
	});
	std::vector<std::string> stored;	// read back before teardown: index = seqnum
	long total = 0;
	unsigned first_seq = 1;
	bool drained = true, ended_early = false, peer_behind = false;
	long refused_total = 0;
	{
		Persister *pers;
		if (filep) { auto *fp = new FilePersister; fp->initialise(dir, "conc." + std::to_string(n), true); pers = fp; } else pers = new MemoryPersister;
		Poco::Net::StreamSocket sock(new Poco::Net::StreamSocketImpl(fd));
		Poco::Net::SocketAddress addr("127.0.0.1", ntohs(a.sin_port));
		SendSession ses(UTEST::ctx(), sender_comp_id("SRV"), pers);
		ServerConnection *conn = new ServerConnection(&sock, addr, ses, 30, pm, true);
		ses.start(conn, false);
		ses.set_ids();
		first_seq = ses.next_send();
		std::vector<std::thread> th;
		std::atomic<int> go{0};
		std::atomic<long> refused{0};	// send() returned false (the library did not take the message)
		for (int t = 0; t < nthreads; ++t) th.emplace_back([&, t] {
			vh::Rng tr(seed * 977 + n * 31 + t);
			while (!go.load()) sched_yield();
			int i = 0;
			while (i < per) {
				if ((int)tr.below(100) < delay_pct) { if (tr.chance(50)) sched_yield(); else for (volatile unsigned k = 0, m = (unsigned)tr.below(3000); k < m; ++k) ; }
				if ((int)tr.below(100) < batch_pct && per - i >= 2) {
					const int b = (int)std::min<long long>(per - i, tr.range(2, 6));
					std::vector<Message *> v;
					for (int k = 0; k < b; ++k, ++i) v.push_back(mk_order("t" + std::to_string(t) + "_" + std::to_string(i), tr.chance(10) ? (size_t)tr.range(1, 600) : 0));
					const size_t took = ses.send_batch(v); if (took != v.size()) refused += (long)(v.size() - took);
				} else if (pm == pm_thread && tr.chance(30)) {
					// the by-reference overload (not available when pipelining): the caller keeps the message
					std::unique_ptr<Message> m(mk_order("t" + std::to_string(t) + "_" + std::to_string(i), tr.chance(10) ? (size_t)tr.range(1, 600) : 0));
					if (!ses.send(*m)) ++refused; ++i;
				} else { if (!ses.send(mk_order("t" + std::to_string(t) + "_" + std::to_string(i), tr.chance(10) ? (size_t)tr.range(1, 600) : 0))) ++refused; ++i; }
			}
		});
		go = 1;
		for (auto& t : th) t.join();
		total = (long)nthreads * per;
		refused_total = refused.load();
		// pipeline: the writer thread drains its queue; wait until the session has numbered everything (watchdog 30 s)
		for (int i = 0; i < 120000 && (long)(ses.next_send() - first_seq) < total; ++i) std::this_thread::sleep_for(std::chrono::milliseconds(1));
		if ((long)(ses.next_send() - first_seq) < total) drained = false;	// watchdog: the verdict on counts would be about machine load
		// the peer must have READ everything before the session closes its socket: a close with unread inbound data (a resend request
		// the session never got to) resets the connection, and a reset discards what the peer has not read yet
		for (int i = 0; i < 120000 && drained && seen_new.load() < total - refused.load(); ++i) std::this_thread::sleep_for(std::chrono::milliseconds(1));
		if (drained && seen_new.load() < total - refused.load()) peer_behind = true;
		std::this_thread::sleep_for(std::chrono::milliseconds(5));
		ended_early = ses.is_shutdown();	// diagnosis: the session gave up by itself (it should not)
		stored.resize(first_seq + total + 2);
		for (unsigned s = first_seq; s < first_seq + total; ++s) { f8String to; if (ses.persister()->get(s, to)) stored[s] = to; }
		ses.stop();
		delete conn;
	}
	stop_reader = true;
	wreader.join();
	::close(peer); ::close(lsn);
	const std::string cls = std::string(pm == pm_thread ? "pm_thread" : "pm_pipeline") + "|" + (filep ? "file" : "memory");
	char d[400];
	std::vector<std::string> msgs;
	if (!split(wire, msgs) && !peer_behind) {
		size_t off = 0; for (auto& m : msgs) off += m.size();
		std::string ctxs = wire.substr(off > 60 ? off - 60 : 0, 360); for (auto& ch : ctxs) if (ch == 1) ch = '|'; else if ((unsigned char)ch < 32 || (unsigned char)ch > 126) ch = '?';
		char dd[900]; snprintf(dd, sizeof dd, "%zu bytes on the wire do not split into whole messages after %zu messages (offset %zu; interleaved writes?); bytes around that offset: %s", wire.size(), msgs.size(), off, ctxs.c_str());
		R.viol("oracle:wire-stream-corrupt|" + cls, dd); }
	std::map<std::string, int> ids; bool ok = true;
	unsigned expect = first_seq;
	uint64_t order_hash = 1469598103934665603ULL;
	std::vector<std::string> sent_by_num;	// the new message transmitted under each number
	long new_app = 0;
	// strip what every retransmission legitimately changes (length, PossDupFlag, times, checksum)
	auto core = [](const std::string& m) {
		std::string o; size_t i = 0;
		while (i < m.size()) {
			size_t e = m.find('\x01', i); if (e == std::string::npos) e = m.size();
			const std::string f = m.substr(i, e - i);
			if (f.compare(0, 2, "9=") && f.compare(0, 3, "43=") && f.compare(0, 3, "52=") && f.compare(0, 4, "122=") && f.compare(0, 3, "10=")) o += f + "|";
			i = e + 1;
		}
		return o;
	};
	struct GapFill { unsigned from, to; size_t req; };
	std::vector<GapFill> gapfill_list;
	size_t ri = 0; unsigned cover = 0;	// replay oracle state: request being answered, next number its answer must cover
	bool attribution_lost = false;	// set once a request follows an open-ended one: its answer may overlap the tail of the previous answer
	long replayed = 0, gapfills = 0;
	for (auto& m : msgs) {
		const size_t mi = (size_t)(&m - &msgs[0]);
		const unsigned s = (unsigned)atol(field(m, "34").c_str());
		const std::string id = field(m, "11");
		const bool dup = field(m, "43") == "Y", gf = field(m, "35") == "4";
		while (ri < reqs.size() && ri + 1 < reqs.size() && reqs[ri + 1].wire_msg_index <= mi) { if (!reqs[ri].end) attribution_lost = true; ++ri; cover = 0; }
		if (dup || gf) {
			// part of the answer to request ri
			if (reqs.empty() || reqs[ri].wire_msg_index > mi) { if (ok) { snprintf(d, sizeof d, "a retransmission (number %u) appears on the wire before any resend request was sent", s); R.viol("oracle:unrequested-retransmission|" + cls, d); ok = false; } continue; }
			const Req& q = reqs[ri];
			if (!cover) cover = q.begin;
			const unsigned certain = q.end ? q.end : q.seen_hi - 1;	// numbers up to here were stored before the request existed (end < seen_hi)
			if (gf) {
				++gapfills;
				const unsigned nsn = (unsigned)atol(field(m, "36").c_str());
				gapfill_list.push_back({s, nsn, ri});	// judged below, when every new message of the run is known
				(void)certain;
				if (nsn > cover) cover = nsn;
			} else {
				++replayed;
				if (s < cover && ok && s >= q.begin && !attribution_lost) { snprintf(d, sizeof d, "resend request [%u,%u]: retransmission of %u after the answer had already reached %u (not ascending)", q.begin, q.end, s, cover); R.viol("oracle:replay-not-ascending|" + cls, d); ok = false; }
				if (s > cover && ok && !attribution_lost) for (unsigned k = cover; k < s && k <= certain; ++k) if (k >= q.begin && k < sent_by_num.size() && !field(sent_by_num[k], "11").empty()) {
					snprintf(d, sizeof d, "threads=%d: resend request [%u,%u] (highest seen %u): the answer jumps from %u to %u without retransmitting or gap-filling application message %u", nthreads, q.begin, q.end, q.seen_hi, cover, s, k);
					R.viol("oracle:replay-skips-stored-message|" + cls, d); ok = false; break;
				}
				if (s < sent_by_num.size() && !sent_by_num[s].empty() && core(sent_by_num[s]) != core(m) && ok) {
					snprintf(d, sizeof d, "retransmission of number %u (id %s, %zu bytes) is not the message transmitted under that number (id %s, %zu bytes)", s, id.c_str(), m.size(), field(sent_by_num[s], "11").c_str(), sent_by_num[s].size());
					R.viol("oracle:replayed-copy-differs|" + cls, d); ok = false;
				}
				if ((s >= sent_by_num.size() || sent_by_num[s].empty()) && ok) { snprintf(d, sizeof d, "retransmission of number %u which had not been transmitted before", s); R.viol("oracle:replayed-copy-differs|" + cls, d); ok = false; }
				if (s + 1 > cover) cover = s + 1;
			}
			continue;
		}
		if (s != expect && ok) { snprintf(d, sizeof d, "threads=%d: message %ld on the wire carries MsgSeqNum %u, expected %u (id %s)", nthreads, (long)mi, s, expect, id.c_str()); R.viol("oracle:wire-numbers-not-consecutive|" + cls, d); ok = false; }
		expect = s + 1;
		if (s >= sent_by_num.size()) sent_by_num.resize(s + 1);
		sent_by_num[s] = m;
		if (id.empty()) continue;	// an admin message of the session's own
		++new_app;
		++ids[id];
		order_hash = (order_hash ^ (uint64_t)(id.size() > 1 ? id[1] : 0)) * 1099511628211ULL;
		if (s < stored.size() && stored[s] != m && ok) { snprintf(d, sizeof d, "number %u: wire message (id %s, %zu bytes) differs from the stored copy (%zu bytes, id %s)", s, id.c_str(), m.size(), stored[s].size(), field(stored[s], "11").c_str()); R.viol("oracle:stored-copy-differs-from-wire|" + cls, d); ok = false; }
	}
	// A gap fill never stands for an application message, whenever that message was sent: the answer ends where sending had got to when
	// it began, a number is passed only after its message is stored, and what is stored is retransmitted.
	for (auto& g : gapfill_list) for (unsigned k = g.from; k < g.to && ok; ++k) if (k < sent_by_num.size() && !field(sent_by_num[k], "11").empty()) {
		const Req& q = reqs[g.req];
		snprintf(d, sizeof d, "threads=%d: resend request [%u,%u] (sent after number %u had been seen): gap fill %u->%u stands for application message %u (id %s)", nthreads, q.begin, q.end, q.seen_hi, g.from, g.to, k, field(sent_by_num[k], "11").c_str());
		R.viol("oracle:gapfill-skips-stored-message|" + cls, d); ok = false;
	}
	R.stat("resend_requests", (long long)reqs.size()); R.stat("retransmissions_checked", replayed); R.stat("gap_fills_seen", gapfills);
	if (peer_behind) { R.viol("inconclusive:peer-had-not-read-everything-after-120s|" + cls, "the wire reader had not received all messages 120 s after the last send"); ok = false; }
	if (!drained) { R.viol("inconclusive:writer-not-drained-after-120s|" + cls, "the pipelined writer had not numbered all queued messages after 120 s"); ok = false; }
	std::string admin_types;
	for (auto& m : msgs) { const std::string t = field(m, "35"); if (t != "D" && t != "4" && admin_types.size() < 120) admin_types += t + "#" + field(m, "34") + (field(m, "58").empty() ? "" : "(" + field(m, "58").substr(0, 60) + ")") + " "; }
	if (new_app != total - refused_total && ok) { snprintf(d, sizeof d, "threads=%d per=%d: %ld messages sent, %ld on the wire; session shut down by itself=%d; admin messages from the session: [%s]; resend requests sent by the peer: %zu; sends refused (send() false): %ld", nthreads, per, total, new_app, (int)ended_early, admin_types.c_str(), reqs.size(), refused_total); R.viol("oracle:message-count-differs|" + cls, d); ok = false; }
	for (auto& p : ids) if (p.second != 1 && ok) { R.viol("oracle:message-transmitted-more-than-once|" + cls, "id " + p.first + " appears " + std::to_string(p.second) + " times"); ok = false; }
	R.stat("runs"); R.stat("messages_sent", total); R.stat("wire_messages", (long long)msgs.size());
	R.distinct("wire_interleaving", order_hash);
	if (R.want_sample() && n % 5 == 0) { snprintf(d, sizeof d, "{\"model\":\"%s\",\"persister\":\"%s\",\"threads\":%d,\"per_thread\":%d,\"batch_pct\":%d,\"wire_messages\":%zu}", pm == pm_thread ? "pm_thread" : "pm_pipeline", filep ? "file" : "memory", nthreads, per, batch_pct, msgs.size()); R.sample(d); }
}

int main(int argc, char **argv)
{
	vh::Args a(argc, argv);
	setvbuf(stdout, nullptr, _IOLBF, 0);
	signal(SIGPIPE, SIG_IGN);
	GlobalLogger::set_levels(Logger::Levels(Logger::None));
	const uint64_t seed = a.num("seed", 1);
	const long long start = a.num("start", 0), cases = a.num("cases", 1);
	R.case_seconds = (unsigned)a.num("case-seconds", 120);
	for (long long n = start; n < start + cases; ++n) one_case(n, seed, a.str("dir", "."));
	R.done();
	return 0;
}
