// conc_send: C25.  2..8 application threads send through ONE real Session (send(Message*) and send_batch) on a real ServerConnection
// (pm_thread and pm_pipeline) over loopback TCP; a wire-reader thread on the peer socket records the byte stream.  Oracle: MsgSeqNums on
// the wire are start..start+N-1, each once and in increasing wire order; every id transmitted exactly once; the stored copy under each
// number is the transmitted message; ThreadSanitizer (this harness is meant for the tsan flavour; it also runs under asan) reports races.
#include <fix8/f8includes.hpp>
#include "utest_types.hpp"
#include "utest_router.hpp"
#include "utest_classes.hpp"
#include "vh.hpp"
#include <dlfcn.h>
#include <sys/socket.h>
#include <netinet/in.h>
#include <netinet/tcp.h>
#include <arpa/inet.h>
#include <poll.h>
#include <atomic>
#include <mutex>
#include <thread>
#include <Poco/Net/StreamSocketImpl.h>

using namespace FIX8;
static vh::Report R;

extern "C" int clock_nanosleep(clockid_t id, int flags, const struct timespec *req, struct timespec *rem)
{
	typedef int (*fn_t)(clockid_t, int, const struct timespec *, struct timespec *);
	typedef int (*gt_t)(clockid_t, struct timespec *);
	static fn_t real = (fn_t)dlsym(RTLD_NEXT, "clock_nanosleep");
	static gt_t rgt = (gt_t)dlsym(RTLD_NEXT, "clock_gettime");
	if (flags & TIMER_ABSTIME) {	// only the 1 s ~Session / 250 ms stop() sleeps are shortened: every thread is joined explicitly
		timespec now; rgt(id, &now);
		const long long d = (req->tv_sec - now.tv_sec) * 1000000000LL + (req->tv_nsec - now.tv_nsec);
		if (d > 100000000LL) { timespec t = now; t.tv_nsec += 2000000; if (t.tv_nsec >= 1000000000L) { t.tv_nsec -= 1000000000L; ++t.tv_sec; } return real(id, flags, &t, rem); }
	}
	return real(id, flags, req, rem);
}

class SendSession : public Session {
public:
	SendSession(const F8MetaCntx& ctx, const sender_comp_id& sci, Persister *p) : Session(ctx, sci, p) { _timer.clear(); _timer.stop(); _timer.join(); }
	bool handle_application(const unsigned, const Message *&) override { return true; }
	Persister *persister() { return _persist; }
	void set_ids() { _sid = SessionID(_ctx._beginStr, "SRV", "CLI"); }
	unsigned next_send() const { return _next_send_seq; }
};

static Message *mk_order(const std::string& id, size_t pad)
{
	auto *nos = new UTEST::NewOrderSingle;
	*nos << new UTEST::ClOrdID(id) << new UTEST::TransactTime << new UTEST::HandlInst('1') << new UTEST::Symbol("SYM")
		  << new UTEST::OrdType('1') << new UTEST::Side('1') << new UTEST::OrderQty(100);
	if (pad) *nos << new UTEST::Text(std::string(pad, 'x'));
	return nos;
}

static bool split(const std::string& b, std::vector<std::string>& out)
{
	size_t i = 0;
	while (i < b.size()) {
		if (b.compare(i, 2, "8=")) return false;
		size_t j = b.find("\x01" "9=", i); if (j == std::string::npos) return false;
		size_t k = b.find('\x01', j + 3); if (k == std::string::npos) return false;
		const long n = atol(b.c_str() + j + 3);
		const size_t end = k + 1 + (size_t)n + 7;
		if (n <= 0 || end > b.size()) return false;
		out.push_back(b.substr(i, end - i));
		i = end;
	}
	return true;
}
static std::string field(const std::string& m, const char *tag)
{
	const std::string k = std::string("\x01") + tag + "=";
	size_t p = m.find(k); if (p == std::string::npos) return "";
	p += k.size();
	return m.substr(p, m.find('\x01', p) - p);
}

static void one_case(long long n, uint64_t seed, const std::string& dir)
{
	vh::Rng r(seed * 65537 + n);
	R.case_mark(n);
	const ProcessModel pm = (n % 2) ? pm_thread : pm_pipeline;
	const bool filep = (n / 2) % 2;
	const int nthreads = (int)r.range(2, 8);
	const int per = (int)r.range(20, 200);
	const int batch_pct = (int)r.range(0, 50);
	const int delay_pct = (int)r.range(0, 40);
	int lsn = socket(AF_INET, SOCK_STREAM, 0);
	int one = 1; setsockopt(lsn, SOL_SOCKET, SO_REUSEADDR, &one, sizeof one);
	sockaddr_in a{}; a.sin_family = AF_INET; a.sin_addr.s_addr = htonl(INADDR_LOOPBACK); a.sin_port = 0;
	if (bind(lsn, (sockaddr *)&a, sizeof a) || listen(lsn, 2)) { perror("listen"); exit(2); }
	socklen_t l = sizeof a; getsockname(lsn, (sockaddr *)&a, &l);
	int peer = socket(AF_INET, SOCK_STREAM, 0);
	if (connect(peer, (sockaddr *)&a, sizeof a)) { perror("connect"); exit(2); }
	const int fd = accept(lsn, nullptr, nullptr);
	std::string wire;
	std::atomic<bool> stop_reader{false};
	std::thread wreader([&] {
		char buf[65536];
		for (;;) {
			pollfd p{peer, POLLIN, 0};
			const int pr = poll(&p, 1, 20);
			if (pr > 0) { ssize_t k = recv(peer, buf, sizeof buf, 0); if (k < 0 && (errno == EINTR || errno == EAGAIN)) continue; if (k <= 0) break; wire.append(buf, (size_t)k); }
			else if (pr < 0 && errno == EINTR) continue;
			else if (stop_reader.load()) break;
		}
	});
	std::vector<std::string> stored;	// read back before teardown: index = seqnum
	long total = 0;
	unsigned first_seq = 1;
	bool drained = true;
	{
		Persister *pers;
		if (filep) { auto *fp = new FilePersister; fp->initialise(dir, "conc." + std::to_string(n), true); pers = fp; } else pers = new MemoryPersister;
		Poco::Net::StreamSocket sock(new Poco::Net::StreamSocketImpl(fd));
		Poco::Net::SocketAddress addr("127.0.0.1", ntohs(a.sin_port));
		SendSession ses(UTEST::ctx(), sender_comp_id("SRV"), pers);
		ServerConnection *conn = new ServerConnection(&sock, addr, ses, 30, pm, true);
		ses.start(conn, false);
		ses.set_ids();
		first_seq = ses.next_send();
		std::vector<std::thread> th;
		std::atomic<int> go{0};
		for (int t = 0; t < nthreads; ++t) th.emplace_back([&, t] {
			vh::Rng tr(seed * 977 + n * 31 + t);
			while (!go.load()) sched_yield();
			int i = 0;
			while (i < per) {
				if ((int)tr.below(100) < delay_pct) { if (tr.chance(50)) sched_yield(); else for (volatile unsigned k = 0, m = (unsigned)tr.below(3000); k < m; ++k) ; }
				if ((int)tr.below(100) < batch_pct && per - i >= 2) {
					const int b = (int)std::min<long long>(per - i, tr.range(2, 6));
					std::vector<Message *> v;
					for (int k = 0; k < b; ++k, ++i) v.push_back(mk_order("t" + std::to_string(t) + "_" + std::to_string(i), tr.chance(10) ? (size_t)tr.range(1, 600) : 0));
					ses.send_batch(v);
				} else if (pm == pm_thread && tr.chance(30)) {
					// the by-reference overload (not available when pipelining): the caller keeps the message
					std::unique_ptr<Message> m(mk_order("t" + std::to_string(t) + "_" + std::to_string(i), tr.chance(10) ? (size_t)tr.range(1, 600) : 0));
					ses.send(*m); ++i;
				} else { ses.send(mk_order("t" + std::to_string(t) + "_" + std::to_string(i), tr.chance(10) ? (size_t)tr.range(1, 600) : 0)); ++i; }
			}
		});
		go = 1;
		for (auto& t : th) t.join();
		total = (long)nthreads * per;
		// pipeline: the writer thread drains its queue; wait until the session has numbered everything (watchdog 30 s)
		for (int i = 0; i < 120000 && (long)(ses.next_send() - first_seq) < total; ++i) std::this_thread::sleep_for(std::chrono::milliseconds(1));
		if ((long)(ses.next_send() - first_seq) < total) drained = false;	// watchdog: the verdict on counts would be about machine load
		std::this_thread::sleep_for(std::chrono::milliseconds(5));
		stored.resize(first_seq + total + 2);
		for (unsigned s = first_seq; s < first_seq + total; ++s) { f8String to; if (ses.persister()->get(s, to)) stored[s] = to; }
		ses.stop();
		delete conn;
	}
	stop_reader = true;
	wreader.join();
	::close(peer); ::close(lsn);
	const std::string cls = std::string(pm == pm_thread ? "pm_thread" : "pm_pipeline") + "|" + (filep ? "file" : "memory");
	char d[400];
	std::vector<std::string> msgs;
	if (!split(wire, msgs)) { snprintf(d, sizeof d, "%zu bytes on the wire do not split into whole messages after %zu messages (interleaved writes?)", wire.size(), msgs.size()); R.viol("oracle:wire-stream-corrupt|" + cls, d); }
	std::map<std::string, int> ids; bool ok = true;
	unsigned expect = first_seq;
	uint64_t order_hash = 1469598103934665603ULL;
	for (auto& m : msgs) {
		const unsigned s = (unsigned)atol(field(m, "34").c_str());
		const std::string id = field(m, "11");
		if (s != expect && ok) { snprintf(d, sizeof d, "threads=%d: message %ld on the wire carries MsgSeqNum %u, expected %u (id %s)", nthreads, (long)(&m - &msgs[0]), s, expect, id.c_str()); R.viol("oracle:wire-numbers-not-consecutive|" + cls, d); ok = false; }
		expect = s + 1;
		++ids[id];
		order_hash = (order_hash ^ (uint64_t)(id.size() > 1 ? id[1] : 0)) * 1099511628211ULL;
		if (s < stored.size() && stored[s] != m && ok) { snprintf(d, sizeof d, "number %u: wire message (id %s, %zu bytes) differs from the stored copy (%zu bytes, id %s)", s, id.c_str(), m.size(), stored[s].size(), field(stored[s], "11").c_str()); R.viol("oracle:stored-copy-differs-from-wire|" + cls, d); ok = false; }
	}
	if (!drained) { R.viol("inconclusive:writer-not-drained-after-120s|" + cls, "the pipelined writer had not numbered all queued messages after 120 s"); ok = false; }
	if ((long)msgs.size() != total && ok) { snprintf(d, sizeof d, "threads=%d per=%d: %ld messages sent, %zu on the wire", nthreads, per, total, msgs.size()); R.viol("oracle:message-count-differs|" + cls, d); ok = false; }
	for (auto& p : ids) if (p.second != 1 && ok) { R.viol("oracle:message-transmitted-more-than-once|" + cls, "id " + p.first + " appears " + std::to_string(p.second) + " times"); ok = false; }
	R.stat("runs"); R.stat("messages_sent", total); R.stat("wire_messages", (long long)msgs.size());
	R.distinct("wire_interleaving", order_hash);
	if (R.want_sample() && n % 5 == 0) { snprintf(d, sizeof d, "{\"model\":\"%s\",\"persister\":\"%s\",\"threads\":%d,\"per_thread\":%d,\"batch_pct\":%d,\"wire_messages\":%zu}", pm == pm_thread ? "pm_thread" : "pm_pipeline", filep ? "file" : "memory", nthreads, per, batch_pct, msgs.size()); R.sample(d); }
}

int main(int argc, char **argv)
{
	vh::Args a(argc, argv);
	setvbuf(stdout, nullptr, _IOLBF, 0);
	signal(SIGPIPE, SIG_IGN);
	GlobalLogger::set_levels(Logger::Levels(Logger::None));
	const uint64_t seed = a.num("seed", 1);
	const long long start = a.num("start", 0), cases = a.num("cases", 1);
	R.case_seconds = (unsigned)a.num("case-seconds", 120);
	for (long long n = start; n < start + cases; ++n) one_case(n, seed, a.str("dir", "."));
	R.done();
	return 0;
}
