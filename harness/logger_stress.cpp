// logger_stress (C28): producers on real threads submit uniquely identified lines to a FileLogger;
// an offline checker over (producer, index, level, return value, logical time of return, logical time of
// the stop call) and the file's contents decides: exactly once, per-producer order, consecutive sequence
// column, nothing at disabled levels, submit result, stop() returning only after accepted lines are written.
#include <fix8/f8includes.hpp>
#include "vh.hpp"
#include <atomic>
#include <fstream>
#include <thread>
#include <sys/stat.h>

using namespace FIX8;
using vh::Rng;
static vh::Report R;

struct Sub { int level; bool ret; uint64_t t_before, t_after; };

int main(int argc, char **argv)
{
	vh::Args a(argc, argv);
	long long start = a.num("start", 0), cases = a.num("cases", 10);
	uint64_t seed = a.num("seed", 1);
	std::string dir = a.str("dir", "/dev/shm");
	char nb[40]; snprintf(nb, sizeof nb, "/ls%d", (int)getpid());
	dir += nb;
	mkdir(dir.c_str(), 0700);

	for (long long c = start; c < start + cases; ++c) {
		R.case_mark(c);
		Rng r(vh::mix(seed, c));
		const int nprod = (int)r.range(1, 8);
		const int nlines = (int)(r.chance(20) ? r.range(500, 2000) : r.range(20, 300));
		unsigned mask = (unsigned)r.range(1, 31);
		if (r.chance(30)) mask = 31;
		const bool race_stop = r.chance(40);
		const int yield_pct = (int)r.below(30);
		const std::string path = dir + "/log" + std::to_string(c);
		unlink(path.c_str());
		std::atomic<uint64_t> clk{1};
		std::atomic<int> finished{0};
		std::vector<std::vector<Sub>> subs(nprod);
		uint64_t t_stop_call = 0, t_stop_ret = 0;
		{
			Logger::LogFlags flags; flags << Logger::sequence << Logger::thread << Logger::level;
			Logger::Levels levels((unsigned)mask);
			FileLogger lg(path, flags, levels, " ", Logger::LogPositions(), 0);
			std::vector<std::thread> th;
			for (int p = 0; p < nprod; ++p) {
				subs[p].reserve(nlines);
				uint64_t ps = vh::mix(vh::mix(seed, c), p + 100);
				th.emplace_back([&, p, ps]() {
					Rng pr(ps);
					for (int i = 0; i < nlines; ++i) {
						Sub s; s.level = (int)pr.below(5);
						char txt[64]; snprintf(txt, sizeof txt, "P%d-%d-L%d", p, i, s.level);
						s.t_before = clk.fetch_add(1);
						s.ret = lg.send(txt, (Logger::Level)s.level);
						s.t_after = clk.fetch_add(1);
						subs[p].push_back(s);
						if ((int)pr.below(100) < yield_pct) std::this_thread::yield();
					}
					finished.fetch_add(1);
				});
			}
			if (race_stop) {
				// stop while producers are (probably) still running
				uint64_t target = 1 + r.below((uint64_t)nprod * nlines * 2);
				while (clk.load() < target && finished.load() < nprod) std::this_thread::yield();
			} else
				for (auto& t : th) t.join();
			t_stop_call = clk.fetch_add(1);
			lg.stop();
			t_stop_ret = clk.fetch_add(1);
			// the file as it is when stop() has returned
			std::ifstream in(path);
			std::vector<std::string> lines; std::string l;
			while (std::getline(in, l)) lines.push_back(l);
			if (race_stop) for (auto& t : th) t.join();

			// ---- offline checker
			char cls[64]; snprintf(cls, sizeof cls, "%s", race_stop ? "stop-races-producers" : "stop-after-join");
			char where[160]; snprintf(where, sizeof where, " producers=%d lines=%d mask=0x%x %s case=%lld", nprod, nlines, mask, cls, c);
			std::map<std::string, int> seen;
			std::vector<int> lastidx(nprod, -1);
			long expectseq = 1;
			bool bad = false;
			for (auto& ln : lines) {
				// "<seq> <thread code> <level name(5)> <text>"
				unsigned long seq = strtoul(ln.c_str(), nullptr, 10);
				size_t tp = ln.rfind('P');
				if (tp == std::string::npos || ln.size() < 12) { R.viol(std::string("oracle:malformed-line|") + cls, vh::vis(ln) + where); bad = true; break; }
				std::string txt = ln.substr(tp);
				int p, i, lv;
				if (sscanf(txt.c_str(), "P%d-%d-L%d", &p, &i, &lv) != 3 || p < 0 || p >= nprod || i < 0 || i >= nlines) { R.viol(std::string("oracle:malformed-line|") + cls, vh::vis(ln) + where); bad = true; break; }
				if ((long)seq != expectseq) { R.viol(std::string("oracle:sequence-column-not-consecutive|") + cls, "line '" + vh::vis(ln) + "' expected sequence " + std::to_string(expectseq) + where); bad = true; break; }
				++expectseq;
				if (++seen[txt] > 1) { R.viol(std::string("oracle:line-duplicated|") + cls, txt + where); bad = true; break; }
				if (!((mask >> lv) & 1)) { R.viol(std::string("oracle:disabled-level-line-written|") + cls, txt + where); bad = true; break; }
				if (i <= lastidx[p]) { R.viol(std::string("oracle:producer-order-broken|") + cls, txt + " after index " + std::to_string(lastidx[p]) + where); bad = true; break; }
				lastidx[p] = i;
				static const char *names[] = {"Debug", "Info ", "Warn ", "Error", "Fatal"};
				if (ln.find(names[lv]) == std::string::npos) { R.viol(std::string("oracle:level-column-wrong|") + cls, vh::vis(ln) + where); bad = true; break; }
			}
			long must = 0, missing = 0, falseret = 0; std::string firstmissing, firstfalse;
			for (int p = 0; p < nprod && !bad; ++p)
				for (int i = 0; i < (int)subs[p].size(); ++i) {
					const Sub& s = subs[p][i];
					char txt[64]; snprintf(txt, sizeof txt, "P%d-%d-L%d", p, i, s.level);
					const bool enabled = (mask >> s.level) & 1;
					const bool before_stop = s.t_after < t_stop_call;
					if (enabled && before_stop) {
						++must;
						if (!seen.count(txt)) { if (!missing++) firstmissing = txt; }
						if (!s.ret) { if (!falseret++) firstfalse = txt; }
					}
					if (!s.ret && seen.count(txt)) R.viol(std::string("oracle:submit-false-but-written|") + cls, std::string(txt) + where);
				}
			if (missing) R.viol(std::string("oracle:accepted-line-missing-after-stop|") + cls, std::to_string(missing) + " of " + std::to_string(must) + " lines submitted before stop() are not in the file, first " + firstmissing + where);
			if (falseret) R.viol(std::string("oracle:submit-returned-false-for-accepted-line|") + cls, std::to_string(falseret) + " of " + std::to_string(must) + ", first " + firstfalse + where);
			R.stat("lines_submitted", (long long)nprod * nlines);
			R.stat("lines_required", must);
			R.stat("lines_in_file", (long long)lines.size());
			R.stat("runs");
			// interleaving signature: order of producers in the file
			uint64_t h = 1; int prevp = -1; long switches = 0;
			for (auto& ln : lines) { size_t tp = ln.rfind('P'); int p = atoi(ln.c_str() + tp + 1); h = vh::mix(h, p); if (p != prevp) { ++switches; prevp = p; } }
			R.stat("producer_switches_in_file", switches);
			R.distinct("file_interleaving", vh::mix(h, lines.size()));
			if (R.want_sample()) R.sample("{\"producers\":" + std::to_string(nprod) + ",\"lines_each\":" + std::to_string(nlines) + ",\"mask\":" + std::to_string(mask) + ",\"stop\":" + vh::jstr(cls) + ",\"in_file\":" + std::to_string(lines.size()) + ",\"required\":" + std::to_string(must) + ",\"first_line\":" + vh::jstr(lines.empty() ? "" : lines[0]) + "}");
		}
		unlink(path.c_str());
	}
	rmdir(dir.c_str());
	R.done();
	return 0;
}
