// persist_model (C26): random operation histories on MemoryPersister / FilePersister against a
// map + control-record model written from the property text.
#include <fix8/f8includes.hpp>
#include "utest_types.hpp"
#include "utest_router.hpp"
#include "utest_classes.hpp"
#include "vh.hpp"
#include <sys/stat.h>

using namespace FIX8;
using vh::Rng;
static vh::Report R;

struct Visit { unsigned seq; std::string bytes; bool done; };

class CheckSession : public Session
{
	Poco::Net::SocketAddress _addr;
public:
	std::vector<Visit> visits;
	CheckSession() : Session(UTEST::ctx())
	{
		_connection = new Connection(0, _addr, *this, Connection::cn_initiator, pm_thread, 10, false);
	}
	~CheckSession() { _timer.clear(); _timer.stop(); _timer.join(); }
	bool retrans_callback(const SequencePair& with, RetransmissionContext& rctx) override
	{
		visits.push_back({with.first, with.second, rctx._no_more_records});
		return true;
	}
	bool handle_application(const unsigned seqnum, const Message *&msg) override { return true; }
};

static std::string payload(Rng& r)
{
	size_t n;
	switch (r.below(6)) {
	case 0: n = r.below(4); break;
	case 1: n = r.range(8185, 8192); break;
	case 2: n = r.range(1, 2000); break;
	default: n = r.range(1, 120); break;
	}
	std::string s(n, 0);
	int kind = r.below(4);
	for (auto& c : s) c = kind == 0 ? (char)r.next() : kind == 1 ? (char)r.range(32, 126) : kind == 2 ? (r.chance(10) ? 0 : r.chance(10) ? 1 : (char)r.range(32, 126)) : (char)(r.next() | 0x80);
	return s;
}

int main(int argc, char **argv)
{
	vh::Args a(argc, argv);
	long long start = a.num("start", 0), cases = a.num("cases", 10);
	uint64_t seed = a.num("seed", 1);
	std::string dir = a.str("dir", "/dev/shm");
	CheckSession *ses = new CheckSession;
	char pidbuf[32]; snprintf(pidbuf, sizeof pidbuf, "pm%d", (int)getpid());
	const std::string dbname = pidbuf;

	for (long long c = start; c < start + cases; ++c) {
		R.case_mark(c);
		Rng r(vh::mix(seed, c));
		const bool file = r.chance(60);
		const std::string kind = file ? "file" : "memory";
		std::unique_ptr<Persister> p;
		auto openfile = [&](bool purge) -> bool {
			FilePersister *fp = new FilePersister(0);
			p.reset(fp);
			return fp->initialise(dir, dbname, purge);
		};
		if (file) { if (!openfile(true)) { R.viol("harness:initialise-failed", dir); continue; } }
		else p.reset(new MemoryPersister);

		std::map<unsigned, std::string> model;
		bool have_ctl = false; unsigned ctl_s = 0, ctl_t = 0;
		const unsigned keyspace = r.chance(30) ? 8 : r.chance(50) ? 40 : 400;
		const int nops = (int)r.range(3, 120);
		uint64_t hh = file;
		std::string trace;
		bool failed = false;
		auto V = [&](const std::string& key, const std::string& detail) {
			R.viol("oracle:" + key + "|" + kind, detail + " history=[" + trace + "]");
			failed = true;
		};
		for (int i = 0; i < nops && !failed; ++i) {
			int op = r.below(100);
			char tb[96];
			R.stat("ops");
			if (op < 30) {			// message put
				unsigned seq = r.chance(6) ? 0 : 1 + (unsigned)r.below(keyspace);
				std::string pl = payload(r);
				snprintf(tb, sizeof tb, "put(%u,%zuB) ", seq, pl.size()); trace += tb; hh = vh::mix(hh, 1);
				bool want = seq != 0 && !model.count(seq);
				bool got = p->put(seq, pl);
				if (want) model[seq] = pl;
				if (got != want) V(std::string("put-result") + (seq == 0 ? "-seq0" : model.count(seq) && !want ? "-occupied" : ""), "put(" + std::to_string(seq) + ") returned " + std::to_string(got));
			} else if (op < 50) {	// get
				unsigned seq = r.chance(6) ? 0 : 1 + (unsigned)r.below(keyspace + 2);
				snprintf(tb, sizeof tb, "get(%u) ", seq); trace += tb; hh = vh::mix(hh, 2);
				f8String to("untouched");
				bool got = p->get(seq, to);
				auto it = model.find(seq);
				if (got != (it != model.end())) V("get-result", "get(" + std::to_string(seq) + ") returned " + std::to_string(got));
				else if (got && to != it->second) V(it->second.find('\0') != std::string::npos ? "get-bytes-nul" : "get-bytes", "get(" + std::to_string(seq) + ") size " + std::to_string(to.size()) + " want " + std::to_string(it->second.size()));
			} else if (op < 62) {	// control put
				unsigned s = r.chance(8) ? 0u : (unsigned)r.below(r.chance(10) ? 0xffffffffu : 100000), t = r.chance(8) ? 0u : (unsigned)r.below(r.chance(10) ? 0x7fffffffu : 100000);
				snprintf(tb, sizeof tb, "ctl(%u,%u) ", s, t); trace += tb; hh = vh::mix(hh, 3);
				bool got = p->put(s, t);
				have_ctl = true; ctl_s = s; ctl_t = t;
				if (!got) V("control-put-result", "control put returned false");
			} else if (op < 72) {	// control get
				trace += "ctl? "; hh = vh::mix(hh, 4);
				unsigned s = 0xdeadbeef, t = 0xdeadbeef;
				bool got = p->get(s, t);
				if (got != have_ctl) V(have_ctl ? "control-get-missing" : "control-get-phantom", "control get returned " + std::to_string(got) + " values " + std::to_string(s) + "," + std::to_string(t));
				else if (got && (s != ctl_s || t != ctl_t)) V("control-get-value", "got " + std::to_string(s) + "," + std::to_string(t) + " want " + std::to_string(ctl_s) + "," + std::to_string(ctl_t));
			} else if (op < 78) {	// last
				trace += "last "; hh = vh::mix(hh, 5);
				unsigned to = 12345;
				unsigned got = p->get_last_seqnum(to);
				unsigned want = model.empty() ? 0 : model.rbegin()->first;
				if (got != want || to != want) V("last-seqnum", "got " + std::to_string(got) + " want " + std::to_string(want));
			} else if (op < 88) {	// nearest highest
				unsigned mx = model.empty() ? 0 : model.rbegin()->first;
				unsigned req = r.chance(8) ? 0 : (unsigned)r.below(mx + 4);
				unsigned last = r.chance(60) ? mx : r.chance(20) ? 0 : (unsigned)r.below(mx + 6);
				snprintf(tb, sizeof tb, "near(%u,%u) ", req, last); trace += tb; hh = vh::mix(hh, 6);
				unsigned want = 0;
				for (auto& kv : model) if (kv.first >= req && kv.first <= last) { want = kv.first; break; }
				unsigned got = p->find_nearest_highest_seqnum(req, last);
				if (got != want) V(req == 0 ? "nearest-highest-requested0" : "nearest-highest", "near(" + std::to_string(req) + "," + std::to_string(last) + ") got " + std::to_string(got) + " want " + std::to_string(want));
			} else if (op < 96) {	// range get
				unsigned mx = model.empty() ? 0 : model.rbegin()->first;
				unsigned from = r.chance(6) ? 0 : 1 + (unsigned)r.below(mx + 3);
				unsigned to = r.chance(30) ? 0 : (unsigned)r.below(mx + 4);
				snprintf(tb, sizeof tb, "range(%u,%u) ", from, to); trace += tb; hh = vh::mix(hh, 7);
				ses->visits.clear();
				unsigned cnt = p->get(from, to, *ses, &Session::retrans_callback);
				unsigned finish = to == 0 ? mx : to;
				std::vector<unsigned> want;
				for (auto& kv : model) if (kv.first >= from && kv.first <= finish) want.push_back(kv.first);
				std::string cls = from == 0 ? "-from0" : "";
				size_t nv = ses->visits.size();
				if (nv == 0 || !ses->visits.back().done) { V("range-no-completion" + cls, "range(" + std::to_string(from) + "," + std::to_string(to) + ") never signalled completion"); }
				else {
					bool ok = nv - 1 == want.size() && cnt == want.size();
					for (size_t k = 0; ok && k < want.size(); ++k) ok = !ses->visits[k].done && ses->visits[k].seq == want[k] && ses->visits[k].bytes == model[want[k]];
					if (!ok) {
						std::string g; for (auto& v : ses->visits) g += (v.done ? "done:" : "") + std::to_string(v.seq) + " ";
						std::string w; for (auto s : want) w += std::to_string(s) + " ";
						V("range-visits" + cls, "range(" + std::to_string(from) + "," + std::to_string(to) + ") visited [" + g + "] returned " + std::to_string(cnt) + " want [" + w + "]");
					}
				}
			} else if (file) {		// reopen
				trace += "reopen "; hh = vh::mix(hh, 8);
				p.reset();
				if (!openfile(false)) V("reopen-failed", "initialise on existing files returned false");
			}
		}
		R.distinct("history", hh);
		R.stat("histories");
		if (R.want_sample() && !failed) R.sample("{\"persister\":" + vh::jstr(kind) + ",\"history\":" + vh::jstr(trace.substr(0, 300)) + "}");
		p.reset();
	}
	unlink((dir + "/" + dbname).c_str()); unlink((dir + "/" + dbname + ".idx").c_str());
	R.done();
	fflush(stdout);
	_exit(0);	// skip ~Session's one second sleep
}
