// prim_exec: micro-monitors for C07 (checksum), C08 (numeric text), C09 (date/time), C10 (realms),
// C12 (lookup tables, presorted_set), C24 (decode_dow).  Each mode runs the real fix8 functions and an
// oracle written from the property text; violations are printed as "VIOL key<TAB>detail".
#include <fix8/f8includes.hpp>
#include "utest_types.hpp"
#include "utest_router.hpp"
#include "utest_classes.hpp"
#include "f44_types.hpp"
#include "f44_router.hpp"
#include "f44_classes.hpp"
#include "vh.hpp"
#include <cmath>
#include <fstream>
#include <sstream>
#include <set>

using namespace FIX8;
using vh::Rng;
typedef unsigned __int128 u128;

static vh::Report R;

static const F8MetaCntx& ctx_of(const std::string& n) { return n == "utest" ? UTEST::ctx() : F44::ctx(); }

// ---------------------------------------------------------------------------------------------------------
// C07
static void chk_one(const unsigned char *src, size_t sz, unsigned off, int len, bool strover)
{
	// exact-size heap copy so that any read outside [0,sz) hits a red zone
	char *buf = new char[sz ? sz : 1];
	if (sz) memcpy(buf, src, sz);
	size_t lo = off, hi = len == -1 ? sz : off + (size_t)len;
	unsigned want = 0;
	for (size_t i = lo; i < hi; ++i) want += src[i];
	want &= 0xff;
	unsigned got;
	if (strover) {
		const f8String s(buf, sz);
		got = Message::calc_chksum(s, off, len);
	} else
		got = len == -1 && off == 0 && (sz & 1) ? Message::calc_chksum(buf, sz) : Message::calc_chksum(buf, sz, off, len);
	delete[] buf;
	R.stat("calls");
	if (got != want) {
		char d[200];
		snprintf(d, sizeof d, "sz=%zu off=%u len=%d got=%u want=%u first=%02x", sz, off, len, got, want, sz ? src[0] : 0);
		R.viol(std::string("oracle:chksum-wrong|") + (len == -1 ? (off ? "offset-nolen" : "whole") : "offset-len"), d);
	}
}

static void mode_chksum(const vh::Args& a)
{
	long long start = a.num("start", 0), cases = a.num("cases", 100);
	uint64_t seed = a.num("seed", 1);
	std::vector<unsigned char> buf(24000);
	for (long long c = start; c < start + cases; ++c) {
		R.case_mark(c);
		Rng r(vh::mix(seed, c));
		int fill = r.below(6);
		for (auto& b : buf) b = fill == 0 ? 0xff : fill == 1 ? 0x80 : fill == 2 ? (unsigned char)(r.next() | 0x80) : (unsigned char)r.next();
		if (c % 8 == 0) {
			// exhaustive small geometry: every (sz, off, len) for sz <= 40 in this case
			size_t maxsz = 40;
			for (size_t sz = 0; sz <= maxsz; ++sz)
				for (unsigned off = 0; off <= sz; ++off) {
					chk_one(buf.data(), sz, off, -1, false);
					for (int len = 0; off + len <= sz; ++len) chk_one(buf.data(), sz, off, len, (sz + off + len) % 5 == 0);
				}
			R.distinct("geom", vh::mix(1, fill));
			continue;
		}
		for (int k = 0; k < 400; ++k) {
			size_t sz;
			switch (r.below(5)) {
			case 0: sz = r.below(97); break;
			case 1: { static const int m[] = {4, 8, 256, 512, 1024}; sz = (size_t)m[r.below(5)] * r.range(1, 18) + r.range(-3, 3); break; }
			case 2: sz = 256 * r.range(1, 70) + r.range(-9, 9); break;
			case 3: sz = r.range(1, 20000); break;
			default: sz = r.range(97, 2100); break;
			}
			if (sz > 20000) sz = 20000;
			unsigned off = r.chance(40) ? 0 : (unsigned)r.below(sz + 1);
			int len = r.chance(35) ? -1 : (int)r.below(sz - off + 1);
			size_t shift = r.below(buf.size() - sz + 1);
			chk_one(buf.data() + shift, sz, off, len, r.chance(20));
			R.distinct("geom", vh::mix(vh::mix(sz, off), (uint64_t)len + 7 * fill));
		}
	}
}

// ---------------------------------------------------------------------------------------------------------
// C08 ints
static inline void int_one(int v, char *buf /*12 bytes exact*/)
{
	char want[16];
	int wl = snprintf(want, sizeof want, "%d", v);
	size_t l = itoa<int>(v, buf, 10);
	if ((int)l != wl || memcmp(buf, want, wl + 1)) {
		R.viol(std::string("oracle:itoa-text|") + (v < 0 ? "negative" : "nonneg"), "v=" + std::to_string(v) + " text=" + vh::vis(std::string(buf, strnlen(buf, 12))));
		return;
	}
	int back = fast_atoi<int>(buf);
	if (back != v)
		R.viol(std::string("oracle:atoi-roundtrip|") + (v < 0 ? "negative" : "nonneg"), "v=" + std::to_string(v) + " text=" + want + " parsed=" + std::to_string(back));
}

static void mode_ints(const vh::Args& a)
{
	char *buf = new char[12];
	if (a.has("lo")) {	// exhaustive slice [lo, hi]
		long long lo = a.num("lo", 0), hi = a.num("hi", 0);
		R.case_mark(0);
		for (long long v = lo; v <= hi; ++v) int_one((int)v, buf);
		R.stat("ints", hi - lo + 1);
		R.stat("exhaustive_slice", 1);
		delete[] buf;
		return;
	}
	long long start = a.num("start", 0), cases = a.num("cases", 100);
	uint64_t seed = a.num("seed", 1);
	for (long long c = start; c < start + cases; ++c) {
		R.case_mark(c);
		Rng r(vh::mix(seed, c));
		if (c == 0) {
			static const long long b[] = {0, 1, -1, 9, 10, -9, -10, 99, 100, -99, -100, INT32_MAX, INT32_MIN, INT32_MAX - 1, INT32_MIN + 1,
				1000000000, -1000000000, 999999999, -999999999, 2147483640, -2147483640};
			for (auto v : b) { int_one((int)v, buf); R.stat("ints"); R.distinct("int", v); }
			for (int v = -(1 << 17); v <= (1 << 17); ++v) int_one(v, buf);
			R.stat("ints", (1 << 18) + 1);
		}
		for (int k = 0; k < 100000; ++k) {
			int v;
			switch (r.below(4)) {
			case 0: v = (int)(uint32_t)r.next(); break;
			case 1: { int d = r.range(1, 10); long long p = 1; while (d--) p *= 10; long long x = p + r.range(-2, 2); if (x > INT32_MAX) x = INT32_MAX; v = (int)(r.chance(50) ? -x : x); break; }
			case 2: v = (int)r.range(-(1 << 20), 1 << 20); break;
			default: v = (int)((uint32_t)r.next() >> r.below(31)) * (r.chance(50) ? -1 : 1); break;
			}
			int_one(v, buf);
			if (k < 2000) R.distinct("int", (uint32_t)v);
		}
		R.stat("ints", 100000);
		// the typed field path: Field<int,N>(text) / print
		for (int k = 0; k < 2000; ++k) {
			int v = (int)(uint32_t)r.next() >> r.below(31);
			if (r.chance(50)) v = -v;
			char txt[16]; snprintf(txt, sizeof txt, "%d", v);
			Field<int, 9000> f(txt);
			char out[40]; size_t n = f.print(out); out[n] = 0;
			if (f.get() != v) R.viol(std::string("oracle:intfield-parse|") + (v < 0 ? "negative" : "nonneg"), std::string("text=") + txt + " got=" + std::to_string(f.get()));
			Field<int, 9000> g(v);
			n = g.print(out); out[n] = 0;
			if (strcmp(out, txt)) R.viol(std::string("oracle:intfield-print|") + (v < 0 ? "negative" : "nonneg"), std::string("v=") + txt + " printed=" + out);
			R.stat("intfields");
		}
	}
	delete[] buf;
}

// ---------------------------------------------------------------------------------------------------------
// C08 floats.  Exact oracle with 128-bit integers: v = m * 2^e exactly.
struct Exact { bool neg; u128 q; int cmp; bool tiny; };	// q = floor(|v| * 10^p), cmp = sign(frac - 1/2): -1 below, 0 tie, +1 above
static const uint64_t P10[] = {1ull, 10ull, 100ull, 1000ull, 10000ull, 100000ull, 1000000ull, 10000000ull, 100000000ull, 1000000000ull};

static Exact exact_scaled(double v, int p)
{
	Exact x{};
	x.neg = std::signbit(v);
	double av = fabs(v);
	if (av == 0) { x.q = 0; x.cmp = -1; return x; }
	int e;
	double fr = frexp(av, &e);			// av = fr * 2^e, fr in [0.5,1)
	uint64_t m = (uint64_t)ldexp(fr, 53);	// 53-bit integer
	e -= 53;								// av = m * 2^e
	u128 n = (u128)m * P10[p];			// < 2^53 * 2^30
	if (e >= 0) { x.q = n << e; x.cmp = -2; return x; }	// integer: exact, fraction 0
	int s = -e;
	if (s >= 126) { x.q = 0; x.cmp = -1; x.tiny = true; return x; }	// |v|*10^p < 2^83 / 2^126: far below 1/2
	u128 q = n >> s, rem = n - (q << s), half = (u128)1 << (s - 1);
	x.q = q;
	x.cmp = rem == 0 ? -2 : rem < half ? -1 : rem == half ? 0 : 1;
	return x;
}

// parse "[-]ddd[.fff]" into scaled integer T = value * 10^p ; returns false if malformed or more than p fraction digits
static bool parse_text(const char *t, int p, bool& neg, u128& T, int& fdig)
{
	neg = false;
	if (*t == '-') { neg = true; ++t; }
	if (!isdigit((unsigned char)*t)) return false;
	T = 0;
	while (isdigit((unsigned char)*t)) T = T * 10 + (*t++ - '0');
	fdig = 0;
	if (*t == '.') {
		++t;
		if (!isdigit((unsigned char)*t)) return false;
		while (isdigit((unsigned char)*t)) { T = T * 10 + (*t++ - '0'); ++fdig; }
	}
	if (*t) return false;
	if (fdig > p) return false;
	for (int i = fdig; i < p; ++i) T *= 10;
	return true;
}

static std::string u128s(u128 v) { std::string s; do { s.insert(s.begin(), char('0' + (int)(v % 10))); v /= 10; } while (v); return s; }

static void float_one(double v, int p, const char *cls)
{
	char *buf = new char[40];
	memset(buf, 0x7f, 40);
	size_t n = modp_dtoa(v, buf, p);
	std::string txt(buf, strnlen(buf, 40));
	delete[] buf;
	R.stat("floats");
	char vd[64]; snprintf(vd, sizeof vd, "%.17g", v);
	std::string where = std::string("v=") + vd + " p=" + std::to_string(p) + " text=" + vh::vis(txt) + " class=" + cls;
	if (n != txt.size()) { R.viol("oracle:dtoa-length", where + " returned=" + std::to_string(n)); return; }
	bool neg; u128 T; int fdig;
	if (!parse_text(txt.c_str(), p, neg, T, fdig)) { R.viol("oracle:dtoa-malformed", where); return; }
	Exact x = exact_scaled(v, p);
	bool ok = x.cmp == -2 ? T == x.q : x.cmp < 0 ? T == x.q : x.cmp > 0 ? T == x.q + 1 : (T == x.q || T == x.q + 1);
	bool signok = T == 0 ? true : neg == x.neg;	// "-0.0" vs "0.0": sign of zero not demanded
	if (!ok || !signok) {
		// classify: is the exact scaled value within 2^-50 (relative to the scaled magnitude) of a tie?
		double scaled = fabs(v) * (double)P10[p];
		double fracpart = scaled - floor(scaled);
		bool neartie = fabs(fracpart - 0.5) <= ldexp(scaled > 1 ? scaled : 1.0, -50);
		u128 d = T > x.q ? T - x.q : x.q - T;
		bool adjacent = d <= 1;
		R.viol(std::string("oracle:dtoa-misrounded|") + (neartie ? (adjacent ? "near-tie-adjacent" : "near-tie-far") : "not-near-tie"),
			where + " want=" + u128s(x.q) + (x.cmp == 0 ? "(tie)" : x.cmp > 0 ? "+1" : "") + " got=" + u128s(T));
		return;
	}
	// parse back
	double w = fast_atof(txt.c_str());
	Field<fp_type, 9001> fld(txt.c_str());
	if (!(fld.get() == w) && !(w != w)) R.viol("oracle:floatfield-parse-differs", where);
	// "within half a unit in the last place": the last decimal place the text shows (fdig fraction digits).
	// |w*10^fdig - Tf| <= 1/2 ; else accept the two doubles adjacent to the text value
	u128 Tf = T;
	for (int i = fdig; i < p; ++i) Tf /= 10;
	Exact y = exact_scaled(w, fdig);
	bool within;
	{
		// |w|*10^fdig = y.q + f ; Tf integer. within half: (y.q == Tf && f <= 1/2) || (y.q + 1 == Tf && f >= 1/2)
		bool fle = y.cmp <= 0, fge = y.cmp >= 0;
		within = (y.q == Tf && fle) || (y.q + 1 == Tf && fge) ;
		if (T != 0 && (std::signbit(w) != neg)) within = false;
	}
	{	// statistic only: error of the parse in ulps of the result
		long double tv = strtold(txt.c_str(), nullptr);
		if (w != 0 && std::isfinite(w)) {
			long double ulp = (long double)(nextafter(fabs(w), INFINITY) - fabs(w));
			long long e = (long long)ceill(fabsl((long double)w - tv) / ulp);
			if (e > 0) R.stat("atof_off_by_1ulp_or_more");
			if (e > 2) R.stat("atof_off_by_more_than_2ulp");
		}
	}
	if (!within) {
		// adjacent doubles to the decimal's value: use long double parse of the text
		long double tv = strtold(txt.c_str(), nullptr);
		double nearest = (double)tv;
		double lo = nextafter(nearest, -INFINITY), hi = nextafter(nearest, INFINITY);
		bool adj = w == nearest || (w == lo && (long double)lo <= tv && tv <= (long double)nearest) || (w == hi && (long double)nearest <= tv && tv <= (long double)hi)
			|| (w == lo && tv <= (long double)nearest) || (w == hi && tv >= (long double)nearest);
		// count significant digits of the text
		int sig = 0; bool lead = true;
		for (char ch : txt) if (isdigit((unsigned char)ch)) { if (ch != '0') lead = false; if (!lead) ++sig; }
		if (!adj) {
			char wd[64]; snprintf(wd, sizeof wd, "%.17g", w);
			// error class: a few units in the last place of the double (the algorithm's own rounding) or grossly wrong
			const long double ulp = (long double)(nextafter(fabs(nearest), INFINITY) - fabs(nearest));
			const bool small = ulp > 0 && fabsl((long double)w - tv) <= 4 * ulp;
			R.viol(std::string("oracle:atof-inexact|") + (sig > 15 ? "more-than-15-significant-digits" : sig == 15 ? "exactly-15-significant-digits" : "at-most-14-significant-digits")
				+ (small ? "|within-4-ulp" : "|beyond-4-ulp"), where + " parsed=" + wd);
		} else R.stat("atof_adjacent_only");
	}
}

static void mode_floats(const vh::Args& a)
{
	long long start = a.num("start", 0), cases = a.num("cases", 100);
	uint64_t seed = a.num("seed", 1);
	for (long long c = start; c < start + cases; ++c) {
		R.case_mark(c);
		Rng r(vh::mix(seed, c));
		if (c == 0) {
			static const double sp[] = {0.0, -0.0, 0.5, 1.5, 2.5, 0.05, 0.15, 0.25, 0.35, 0.95, 0.995, 9.995, 99.5, 0.99, 0.999999999, 0.9999999995,
				2147483647.0, 2147483646.5, 2147483647.999, -2147483647.5, 4.9e-324, 2.2250738585072014e-308, 1e-10, 5e-10, 4.9999999999e-10,
				1.005, 1.015, 1.025, 0.285, 1.45, 8.345, 0.125, 0.375, 1234567.125, 1073741823.5, 0.1, 0.2, 0.3, 123456789.123456789};
			for (double v : sp) for (int p = 0; p <= 9; ++p) { float_one(v, p, "special"); float_one(-v, p, "special"); }
		}
		for (int k = 0; k < 3000; ++k) {
			int p = r.below(10);
			double v; const char *cls;
			switch (r.below(7)) {
			case 0: {	// random bit pattern below 2^31
				uint64_t bits = r.next();
				int ex = r.range(1023 - 40, 1023 + 30);
				bits = (bits & 0x800FFFFFFFFFFFFFull) | ((uint64_t)ex << 52);
				memcpy(&v, &bits, 8); cls = "random-bits"; break; }
			case 1: {	// decimal with d <= 9 digits
				int d = r.below(10); long long w = r.below(1ull << r.range(1, 31)); long long f = r.below(P10[d]);
				v = (double)w + (double)f / (double)P10[d]; if (r.chance(50)) v = -v; cls = "decimal"; break; }
			case 2: {	// near tie at precision p: (k + 0.5) / 10^p +- few ulps
				long long w = r.below(1ull << r.range(0, 30)); long long f = r.below(P10[p]);
				v = (double)w + ((double)f + 0.5) / (double)P10[p];
				int steps = r.range(-3, 3);
				while (steps > 0) { v = nextafter(v, INFINITY); --steps; }
				while (steps < 0) { v = nextafter(v, -INFINITY); ++steps; }
				if (r.chance(50)) v = -v; cls = "near-tie"; break; }
			case 3: v = (double)r.range(-2147483647LL, 2147483647LL); cls = "integer"; break;
			case 4: {	// rollover candidates 0.99..9x
				int d = r.range(1, 12); double x = 1.0; for (int i = 0; i < d; ++i) x /= 10; v = (double)r.below(1000) + 1.0 - x * r.range(1, 9); cls = "rollover"; break; }
			case 5: { v = ldexp(r.unit(), r.range(-1074 + 53, -30)); cls = "tiny"; break; }
			default: { v = 2147483647.0 - r.unit() * r.range(0, 3); if (r.chance(50)) v = -v; cls = "near-2^31"; break; }
			}
			if (!(fabs(v) < 2147483648.0)) continue;
			float_one(v, p, cls);
			uint64_t bits; memcpy(&bits, &v, 8);
			R.distinct("float", vh::mix(bits, p));
		}
	}
}

// ---------------------------------------------------------------------------------------------------------
// C09 dates.  Independent civil-calendar algorithm (days <-> y/m/d), never gmtime/timegm.
static void civil_from_days(long long z, int& y, unsigned& m, unsigned& d)
{
	z += 719468;
	const long long era = (z >= 0 ? z : z - 146096) / 146097;
	const unsigned doe = (unsigned)(z - era * 146097);
	const unsigned yoe = (doe - doe / 1460 + doe / 36524 - doe / 146096) / 365;
	const long long yy = (long long)yoe + era * 400;
	const unsigned doy = doe - (365 * yoe + yoe / 4 - yoe / 100);
	const unsigned mp = (5 * doy + 2) / 153;
	d = doy - (153 * mp + 2) / 5 + 1;
	m = mp < 10 ? mp + 3 : mp - 9;
	y = (int)(yy + (m <= 2));
}

static const long long DAYS_2100 = 47482;	// days from 1970-01-01 to 2100-01-01

static void date_one(long long day, int sod, int ms, unsigned which)
{
	int y; unsigned mo, d;
	civil_from_days(day, y, mo, d);
	int hh = sod / 3600, mi = sod / 60 % 60, ss = sod % 60;
	const long long secs = day * 86400LL + sod;
	const Tickval tv((time_t)secs, (long)ms * 1000000L);
	char want[40], got[64];
	const char *era = secs >= 2147483648LL ? "ge-2038" : "lt-2038";
	auto cmp = [&](const char *what, const char *g, const char *w) {
		R.stat("renderings");
		if (strcmp(g, w)) R.viol(std::string("oracle:date-render|") + what + "|" + era, std::string("want=") + w + " got=" + vh::vis(g));
	};
	auto back = [&](const char *what, long long gotticks, long long wantticks, const char *text) {
		R.stat("parses");
		if (gotticks != wantticks) R.viol(std::string("oracle:date-parse|") + what + "|" + era, std::string("text=") + text + " want_ticks=" + std::to_string(wantticks) + " got_ticks=" + std::to_string(gotticks));
	};
	if (which & 1) {
		snprintf(want, sizeof want, "%04d%02u%02u-%02d:%02d:%02d.%03d", y, mo, d, hh, mi, ss, ms);
		Field<UTCTimestamp, 9002> f(tv);
		memset(got, 0, sizeof got); f.print(got);
		cmp("UTCTimestamp", got, want);
		Field<UTCTimestamp, 9002> p(want);
		back("UTCTimestamp", p.get().get_ticks(), secs * 1000000000LL + ms * 1000000LL, want);
		Field<UTCTimestamp, 9002> p2{f8String(want)};
		back("UTCTimestamp", p2.get().get_ticks(), secs * 1000000000LL + ms * 1000000LL, want);
		// seconds-only form parses too
		snprintf(want, sizeof want, "%04d%02u%02u-%02d:%02d:%02d", y, mo, d, hh, mi, ss);
		Field<UTCTimestamp, 9002> p3(want);
		back("UTCTimestamp-sec", p3.get().get_ticks(), secs * 1000000000LL, want);
	}
	if (which & 2) {
		snprintf(want, sizeof want, "%02d:%02d:%02d.%03d", hh, mi, ss, ms);
		Field<UTCTimeOnly, 9003> p(want);
		memset(got, 0, sizeof got); p.print(got);
		cmp("UTCTimeOnly", got, want);
		back("UTCTimeOnly", p.get().get_ticks(), sod * 1000000000LL + ms * 1000000LL, want);
		Field<UTCTimeOnly, 9003> f; f.set(tv);
		memset(got, 0, sizeof got); f.print(got);
		cmp("UTCTimeOnly", got, want);
	}
	if (which & 4) {
		snprintf(want, sizeof want, "%04d%02u%02u", y, mo, d);
		{ Field<UTCDateOnly, 9004> p(want); memset(got, 0, sizeof got); p.print(got); cmp("UTCDateOnly", got, want);
		  back("UTCDateOnly", p.get().get_ticks(), day * 86400LL * 1000000000LL, want);
		  Field<UTCDateOnly, 9004> f; f.set(tv); memset(got, 0, sizeof got); f.print(got); cmp("UTCDateOnly", got, want); }
		{ Field<LocalMktDate, 9005> p(want); memset(got, 0, sizeof got); p.print(got); cmp("LocalMktDate", got, want);
		  back("LocalMktDate", p.get().get_ticks(), day * 86400LL * 1000000000LL, want);
		  Field<LocalMktDate, 9005> f; f.set(tv); memset(got, 0, sizeof got); f.print(got); cmp("LocalMktDate", got, want); }
		{ Field<MonthYear, 9006> p(want); memset(got, 0, sizeof got); p.print(got); cmp("MonthYear8", got, want);
		  back("MonthYear8", p.get().get_ticks(), day * 86400LL * 1000000000LL, want); }
		snprintf(want, sizeof want, "%04d%02u", y, mo);
		{ Field<MonthYear, 9006> p(want); memset(got, 0, sizeof got); p.print(got); cmp("MonthYear6", got, want);
		  back("MonthYear6", p.get().get_ticks(), (day - (d - 1)) * 86400LL * 1000000000LL, want); }
	}
}

static void logts_one(long long day, int sod, long nsec, unsigned dplaces, bool gm)
{
	int y; unsigned mo, d;
	civil_from_days(day, y, mo, d);
	const long long secs = day * 86400LL + sod;
	const Tickval tv((time_t)secs, nsec);
	std::string s;
	GetTimeAsStringMS(s, &tv, dplaces, gm);
	R.stat("logstamps");
	// expected calendar fields; the seconds field: truncation or rounding of the fraction are both accepted,
	// but the shown seconds must be in 00..59 and the date/hour/minute those of the instant.
	char pre[40];
	snprintf(pre, sizeof pre, "%04d-%02u-%02u %02d:%02d:", y, mo, d, sod / 3600, sod / 60 % 60);
	const char *cls = nsec >= 999999500 ? "fraction-rounds-up" : "ordinary";
	if (s.compare(0, strlen(pre), pre)) { R.viol(std::string("oracle:logstamp-calendar|") + cls, "want_prefix=" + std::string(pre) + " got=" + vh::vis(s)); return; }
	std::string rest = s.substr(strlen(pre));
	double sv = atof(rest.c_str());
	if (rest.size() < 2 || !isdigit((unsigned char)rest[0]) || !isdigit((unsigned char)rest[1]) || sv >= 60.0 || (rest[0] - '0') * 10 + (rest[1] - '0') > 59) {
		R.viol(std::string("oracle:logstamp-seconds-ge-60|") + cls, "instant=" + std::string(pre) + std::to_string(sod % 60) + "+" + std::to_string(nsec) + "ns dplaces=" + std::to_string(dplaces) + " got=" + vh::vis(s));
		return;
	}
	double want = sod % 60 + nsec / 1e9;
	double tol = 1.0; for (unsigned i = 0; i < dplaces; ++i) tol /= 10;
	if (fabs(sv - want) > tol + 1e-9) R.viol(std::string("oracle:logstamp-seconds-wrong|") + cls, "want~" + std::to_string(want) + " got=" + vh::vis(s));
}

static void mode_dates(const vh::Args& a)
{
	setenv("TZ", "UTC", 1); tzset();
	long long start = a.num("start", 0), cases = a.num("cases", 100);
	uint64_t seed = a.num("seed", 1);
	long long stride = a.num("daystride", 1);	// thorough: 1 => every day
	static const int sods[] = {0, 59, 3599, 43200, 86399};
	static const int mss[] = {0, 1, 500, 999};
	for (long long c = start; c < start + cases; ++c) {
		R.case_mark(c);
		Rng r(vh::mix(seed, c));
		// case c covers the day block [c*256, c*256+256) (mod the range) -- factorised exhaustion of all days
		long long blocks = (DAYS_2100 + 255) / 256;
		long long blk = c % blocks;
		for (long long day = blk * 256; day < blk * 256 + 256 && day < DAYS_2100; day += stride) {
			for (int s : sods) for (int ms : mss) date_one(day, s, ms, 7);
			R.distinct("day", day);
		}
		// special days x many seconds
		static const long long special[] = {0, 58, 59, 364, 365, 789, 790, 10956, 11016, 11017, 11322, 11323, 24854, 24855, 24856, 47481, 47422, 47116, 19782, 19783, 17531, 17532, 16435, 16436};
		{
			long long day = special[c % (sizeof special / sizeof *special)];
			int base = (int)((c / 24) * 3600 % 86400);
			for (int s = base; s < base + 3600; ++s) date_one(day, s, (int)r.below(1000), 3);
			for (int ms = 0; ms < 1000; ++ms) date_one(day, (int)r.below(86400), ms, 3);
		}
		for (int k = 0; k < 300; ++k) date_one(r.below(DAYS_2100), (int)r.below(86400), (int)r.below(1000), 7);
		for (int k = 0; k < 300; ++k) {
			long nsec = r.chance(30) ? 999999500 + (long)r.below(500) : r.chance(30) ? 999000000 + (long)r.below(1000000) : (long)r.below(1000000000);
			int sod = r.chance(30) ? 59 + 60 * (int)r.below(1440) : (int)r.below(86400);
			logts_one(r.below(DAYS_2100), sod, nsec, (unsigned)r.below(10), r.chance(50));
		}
	}
}

// ---------------------------------------------------------------------------------------------------------
// C24 decode_dow
static int ref_dow(const std::string& in)
{
	if (in.empty()) return -1;
	std::string s;
	for (char ch : in) s += (char)tolower((unsigned char)ch);
	if (s.size() == 1 && s[0] >= '0' && s[0] <= '6') return s[0] - '0';
	// unique one-letter prefixes: m, w, f ; two-letter: su sa tu th
	static const char *names[] = {"su", "mo", "tu", "we", "th", "fr", "sa"};
	// a name is recognised by its unique one- or two-letter prefix: the string must be a prefix-compatible spelling
	// of exactly one day: first letter alone if unique, otherwise first two letters.  Longer strings ("mon", "tue")
	// are accepted when their leading letters identify the day (the property covers strings up to three chars
	// through their prefix).
	int hit = -1, hits = 0;
	for (int i = 0; i < 7; ++i) if (names[i][0] == s[0]) { ++hits; hit = i; }
	if (hits == 0) return -1;
	if (hits == 1) return hit;	// m, w, f
	if (s.size() < 2) return -1;
	for (int i = 0; i < 7; ++i) if (names[i][0] == s[0] && names[i][1] == s[1]) return i;
	return -1;
}

static void mode_dow(const vh::Args& a)
{
	// alphabet: all bytes 1..255 for length 1 and 2; for length 3 a 100-symbol alphabet
	R.case_mark(0);
	std::vector<int> alpha;
	for (int ch = 32; ch < 127; ++ch) alpha.push_back(ch);
	for (int ch : {1, 9, 10, 128, 255}) alpha.push_back(ch);
	auto one = [&](const std::string& s) {
		int got = decode_dow(s), want = ref_dow(s);
		R.stat("dow_strings");
		if (got != want) R.viol(std::string("oracle:decode_dow|len") + std::to_string(s.size()), "in=" + vh::vis(s) + " got=" + std::to_string(got) + " want=" + std::to_string(want));
		if (want >= 0) R.distinct("dow_accepting", vh::hash_str(s));
	};
	one("");
	for (int x = 1; x < 256; ++x) one(std::string(1, (char)x));
	for (int x = 1; x < 256; ++x) for (int y = 1; y < 256; ++y) { std::string s; s += (char)x; s += (char)y; one(s); }
	for (int x : alpha) for (int y : alpha) for (int z : alpha) { std::string s; s += (char)x; s += (char)y; s += (char)z; one(s); }
	R.stat("exhaustive", 1);
}

// ---------------------------------------------------------------------------------------------------------
// C10 realms.  Table file written by the python side from its own schema model:
//   F <ctx> <fnum> <base:int|char|string|float> <type> <msgtype-or-'-'>
//   V <hex enum> <hex description>
struct RealmSpec { std::string ctx; unsigned fnum; std::string base, type, msg; std::vector<std::pair<std::string, std::string>> vals; };

static std::vector<RealmSpec> load_realms(const std::string& path)
{
	std::vector<RealmSpec> out;
	std::ifstream in(path);
	std::string line;
	while (std::getline(in, line)) {
		std::istringstream is(line);
		std::string k; is >> k;
		if (k == "F") { RealmSpec s; is >> s.ctx >> s.fnum >> s.base >> s.type >> s.msg; out.push_back(s); }
		else if (k == "V") { std::string e, d; is >> e >> d; out.back().vals.push_back({vh::unhex(e), vh::unhex(d)}); }
	}
	return out;
}

static void realm_probe(const RealmSpec& s, const F8MetaCntx& ctx, const std::string& text)
{
	const BaseEntry *be = ctx.find_be(s.fnum);
	if (!be) { R.viol("harness:realm-field-missing", std::to_string(s.fnum)); return; }
	if (!be->_rlm) { R.viol("oracle:realm-missing|" + s.base, "field " + std::to_string(s.fnum) + " has enumerated values in the schema but no domain in the library"); return; }
	std::unique_ptr<BaseField> f(be->_create._do(text.c_str(), be->_rlm, -1));
	R.stat("realm_probes");
	// membership by the type's own equality
	int member = -1;
	for (size_t i = 0; i < s.vals.size(); ++i) {
		const std::string& e = s.vals[i].first;
		bool eq;
		if (s.base == "int") eq = atoll(e.c_str()) == atoll(text.c_str());
		else if (s.base == "char") eq = s.type == "BOOLEAN" ? ((text[0] == 'Y') == (e[0] == 'Y')) : e[0] == text[0];
		else if (s.base == "float") eq = atof(e.c_str()) == atof(text.c_str());
		else eq = e == text;
		if (eq) { member = (int)i; break; }
	}
	const int idx = f->get_rlm_idx();
	bool valid;
	if (s.base == "int") valid = be->_rlm->is_valid<int>(atoi(text.c_str()));
	else if (s.base == "char") valid = be->_rlm->is_valid<char>(s.type == "BOOLEAN" ? (text[0] == 'Y' ? 'Y' : 'N') : text[0]);
	else if (s.base == "float") valid = be->_rlm->is_valid<fp_type>(atof(text.c_str()));
	else valid = be->_rlm->is_valid<f8String>(text);
	const std::string where = "ctx=" + s.ctx + " field=" + std::to_string(s.fnum) + " type=" + s.type + " value=" + vh::vis(text);
	if (idx >= 0) {
		if (idx >= be->_rlm->_sz) { R.viol("oracle:realm-index-out-of-range|" + s.base, where + " idx=" + std::to_string(idx)); return; }
		const std::string desc = be->_rlm->_descriptions[idx];
		if (member < 0)
			R.viol("oracle:realm-describes-nonmember|" + s.base, where + " idx=" + std::to_string(idx) + " desc=" + desc);
		else {
			bool okd = false;	// duplicates of one enum value may carry several descriptions
			for (auto& v : s.vals) if (v.first == s.vals[member].first && v.second == desc) okd = true;
			if (!okd) R.viol("oracle:realm-wrong-description|" + s.base, where + " desc=" + desc + " want=" + s.vals[member].second);
		}
	} else if (member >= 0)
		R.stat("realm_member_without_index");	// not demanded by the property (index "exists only when"), recorded
	if (valid != (member >= 0))
		R.viol(std::string("oracle:realm-is_valid|") + s.base + (valid ? "|accepts-nonmember" : "|rejects-member"), where);
	// printer path
	if (s.msg != "-") {
		std::unique_ptr<Message> m(ctx.create_msg(s.msg.c_str()));
		if (m) {
			m->add_field(f.release());
			std::ostringstream os;
			m->print_field(s.fnum, os);
			const std::string out = os.str();
			R.stat("realm_prints");
			// "<Name> (<fnum>): <DESC> (<value>)" when described, "<Name> (<fnum>): <value>" otherwise
			auto pos = out.find("): ");
			std::string tail = pos == std::string::npos ? out : out.substr(pos + 3);
			bool described = tail.size() > 3 && tail.back() == ')' && tail.find(" (") != std::string::npos;
			if (described) {
				std::string d = tail.substr(0, tail.rfind(" ("));
				if (member < 0) R.viol("oracle:printer-describes-nonmember|" + s.base, where + " printed=" + vh::vis(out));
				else {
					bool okd = false;
					for (auto& v : s.vals) if (v.first == s.vals[member].first && v.second == d) okd = true;
					if (!okd) R.viol("oracle:printer-wrong-description|" + s.base, where + " printed=" + vh::vis(out));
				}
			}
		}
	}
}

static void mode_realm(const vh::Args& a)
{
	auto specs = load_realms(a.str("table"));
	long long start = a.num("start", 0), cases = a.num("cases", (long long)specs.size());
	int maxlen = (int)a.num("maxlen", 3);
	for (long long c = start; c < start + cases && c < (long long)specs.size(); ++c) {
		R.case_mark(c);
		const RealmSpec& s = specs[c];
		const F8MetaCntx& ctx = ctx_of(s.ctx);
		R.distinct("realm_field", vh::mix(s.fnum, s.ctx[0]));
		if (s.type == "BOOLEAN") {	// the type's domain is Y/N only
			realm_probe(s, ctx, "Y"); realm_probe(s, ctx, "N");
		} else if (s.base == "char") {
			for (int ch = 1; ch < 256; ++ch) realm_probe(s, ctx, std::string(1, (char)ch));
		} else if (s.base == "int") {
			long long lo = 1LL << 40, hi = -(1LL << 40);
			for (auto& v : s.vals) { lo = std::min(lo, atoll(v.first.c_str())); hi = std::max(hi, atoll(v.first.c_str())); }
			for (long long v = std::max(0LL, lo - 50); v <= hi + 50; ++v) realm_probe(s, ctx, std::to_string(v));
		} else if (s.base == "float") {
			for (auto& v : s.vals) { double x = atof(v.first.c_str()); for (double d : {0.0, 0.01, -0.01, 1.0, -1.0}) { char b[40]; snprintf(b, sizeof b, "%.2f", x + d); if (x + d >= 0) realm_probe(s, ctx, b); } }
		} else {
			bool multi = s.type.find("MULTIPLE") != std::string::npos;
			std::set<char> al;
			for (auto& v : s.vals) for (char ch : v.first) al.insert(ch);
			// neighbours of the members' alphabet
			std::set<char> al2(al);
			for (char ch : al) { if (ch > 33) al2.insert(ch - 1); if (ch < 126) al2.insert(ch + 1); }
			if (multi) al2.erase(' ');
			std::vector<char> av(al2.begin(), al2.end());
			if (av.size() > 40) { av.resize(40); }
			for (auto& v : s.vals) { realm_probe(s, ctx, v.first); realm_probe(s, ctx, v.first + "A"); realm_probe(s, ctx, v.first + "0"); if (v.first.size() > 1) realm_probe(s, ctx, v.first.substr(0, v.first.size() - 1)); }
			std::string cur;
			std::function<void(int)> rec = [&](int depth) {
				if (!cur.empty()) realm_probe(s, ctx, cur);
				if (depth == maxlen) return;
				for (char ch : av) { cur.push_back(ch); rec(depth + 1); cur.pop_back(); }
			};
			int ml = maxlen;
			if (av.size() > 20 && ml > 2) maxlen = 2;
			rec(0);
			maxlen = ml;
		}
	}
}

// ---------------------------------------------------------------------------------------------------------
// C12 lookup tables.  Table file:
//   X <ctx>                       start of a context
//   F <fnum> <name>
//   M <msgtype> <name>
//   S <msgtype|header|trailer> <g1,g2,..|-> <n>  then n lines  "m <fnum> <pos> <mandatory> <isgroup>"
struct SectSpec { std::string msg; std::vector<unsigned> gpath; std::map<unsigned, std::array<int, 3>> mem; };
struct CtxSpec { std::string name; std::map<unsigned, std::string> fields; std::map<std::string, std::string> msgs; std::vector<SectSpec> sects; };

static std::vector<CtxSpec> load_lookup(const std::string& path)
{
	std::vector<CtxSpec> out;
	std::ifstream in(path);
	std::string line;
	while (std::getline(in, line)) {
		std::istringstream is(line);
		std::string k; is >> k;
		if (k == "X") { CtxSpec c; is >> c.name; out.push_back(c); }
		else if (k == "F") { unsigned n; std::string nm; is >> n >> nm; out.back().fields[n] = nm; }
		else if (k == "M") { std::string t, nm; is >> t >> nm; out.back().msgs[t] = nm; }
		else if (k == "S") {
			SectSpec s; std::string gp; int n; is >> s.msg >> gp >> n;
			if (gp != "-") { std::istringstream g(gp); std::string tok; while (std::getline(g, tok, ',')) s.gpath.push_back(atoi(tok.c_str())); }
			for (int i = 0; i < n; ++i) { std::getline(in, line); std::istringstream ms(line); std::string mk; unsigned f; int p, ma, gr; ms >> mk >> f >> p >> ma >> gr; s.mem[f] = {p, ma, gr}; }
			out.back().sects.push_back(s);
		}
	}
	return out;
}

static std::vector<std::string> near_misses(const std::string& s)
{
	std::vector<std::string> v;
	v.push_back("");
	if (!s.empty()) { v.push_back(s.substr(0, s.size() - 1)); v.push_back(s.substr(1)); std::string t = s; t.back()++; v.push_back(t); t = s; t.back()--; v.push_back(t); t = s; t[0]++; v.push_back(t); t = s; t[0]--; v.push_back(t);
		t = s; for (auto& ch : t) ch = (char)tolower((unsigned char)ch); v.push_back(t); t = s; for (auto& ch : t) ch = (char)toupper((unsigned char)ch); v.push_back(t); }
	v.push_back(s + "A"); v.push_back(s + "0"); v.push_back(s + " "); v.push_back(" " + s); v.push_back(s + s);
	return v;
}

static void lookup_ctx(const CtxSpec& cs, const F8MetaCntx& ctx)
{
	const std::string cn = cs.name;
	// field table, all 16-bit keys
	for (unsigned t = 0; t < 65536; ++t) {
		const BaseEntry *be = ctx.find_be((unsigned short)t);
		const BaseEntry *be2 = ctx._be.find_ptr(t);
		auto it = cs.fields.find(t);
		R.stat("lookup_keys", 2);
		if ((be != nullptr) != (it != cs.fields.end()) || (be2 != nullptr) != (it != cs.fields.end()))
			R.viol("oracle:fieldtable-hit-miss", "ctx=" + cn + " tag=" + std::to_string(t) + " find_be=" + (be ? "hit" : "miss") + " find_ptr=" + (be2 ? "hit" : "miss"));
		else if (be && (it->second != be->_name || it->second != be2->_name))
			R.viol("oracle:fieldtable-wrong-entry", "ctx=" + cn + " tag=" + std::to_string(t) + " name=" + be->_name + " want=" + it->second);
	}
	// reverse field table + near misses
	for (auto& p : cs.fields) {
		for (auto& q : near_misses(p.second)) {
			bool present = false; unsigned num = 0;
			for (auto& f : cs.fields) if (f.second == q) { present = true; num = f.first; }
			const BaseEntry *be = ctx.reverse_find_be(q.c_str());
			unsigned short fn = ctx.reverse_find_fnum(q.c_str());
			R.stat("lookup_keys", 2);
			if ((be != nullptr) != present || (fn != 0) != present) R.viol("oracle:reverse-fieldtable-hit-miss", "ctx=" + cn + " name=" + vh::vis(q));
			else if (present && (q != be->_name || fn != num)) R.viol("oracle:reverse-fieldtable-wrong-entry", "ctx=" + cn + " name=" + vh::vis(q) + " got=" + be->_name);
		}
		const BaseEntry *be = ctx.reverse_find_be(p.second.c_str());
		if (!be || ctx.reverse_find_fnum(p.second.c_str()) != p.first) R.viol("oracle:reverse-fieldtable-miss", "ctx=" + cn + " name=" + p.second);
	}
	// message table
	std::set<std::string> keys;
	for (auto& p : cs.msgs) { for (auto& q : near_misses(p.first)) keys.insert(q); keys.insert(p.first); }
	for (int x = 32; x < 127; ++x) { keys.insert(std::string(1, (char)x)); for (int y = 48; y < 123; ++y) keys.insert(std::string(1, (char)x) + (char)y); }
	for (auto& q : keys) {
		const BaseMsgEntry *bme = ctx.find_bme(q.c_str());
		auto it = cs.msgs.find(q);
		bool present = it != cs.msgs.end() || q == "header" || q == "trailer";
		R.stat("lookup_keys");
		if ((bme != nullptr) != present) R.viol("oracle:msgtable-hit-miss", "ctx=" + cn + " msgtype=" + vh::vis(q) + (bme ? " hit" : " miss"));
		else if (bme && it != cs.msgs.end() && it->second != bme->_name) R.viol("oracle:msgtable-wrong-entry", "ctx=" + cn + " msgtype=" + vh::vis(q) + " name=" + bme->_name);
	}
	for (auto& p : cs.msgs)
		for (auto& q : near_misses(p.second)) {
			bool present = false; std::string mt;
			for (auto& m : cs.msgs) if (m.second == q) { present = true; mt = m.first; }
			if (q == "header" || q == "trailer") continue;
			const BaseMsgEntry *bme = ctx.reverse_find_bme(q.c_str());
			R.stat("lookup_keys");
			if ((bme != nullptr) != present) R.viol("oracle:reverse-msgtable-hit-miss", "ctx=" + cn + " name=" + vh::vis(q));
			else if (bme && q != bme->_name) R.viol("oracle:reverse-msgtable-wrong-entry", "ctx=" + cn + " name=" + vh::vis(q));
		}
	// per-section field-trait sets, all 16-bit keys on a live instance
	for (auto& s : cs.sects) {
		std::unique_ptr<Message> msg(ctx.create_msg(s.msg == "header" || s.msg == "trailer" ? cs.msgs.begin()->first.c_str() : s.msg.c_str()));
		if (!msg) { R.viol("oracle:msgtable-create", "ctx=" + cn + " msg=" + s.msg); continue; }
		MessageBase *mb = s.msg == "header" ? (MessageBase *)msg->Header() : s.msg == "trailer" ? (MessageBase *)msg->Trailer() : msg.get();
		std::vector<std::unique_ptr<MessageBase>> keep;
		bool ok = true;
		for (unsigned g : s.gpath) {
			GroupBase *gb = mb->find_add_group(g);
			if (!gb) { R.viol("oracle:group-missing", "ctx=" + cn + " msg=" + s.msg + " group=" + std::to_string(g)); ok = false; break; }
			keep.emplace_back(gb->create_group(true));
			mb = keep.back().get();
		}
		if (!ok) continue;
		const FieldTraits& fp = mb->get_fp();
		std::string sid = "ctx=" + cn + " section=" + s.msg;
		for (unsigned g : s.gpath) sid += "/" + std::to_string(g);
		R.distinct("section", vh::hash_str(sid));
		if (fp.size() != s.mem.size()) R.viol("oracle:traits-size", sid + " size=" + std::to_string(fp.size()) + " want=" + std::to_string(s.mem.size()));
		for (unsigned t = 0; t < 65536; ++t) {
			auto it = s.mem.find(t);
			bool has = fp.has((unsigned short)t);
			R.stat("lookup_keys");
			if (has != (it != s.mem.end())) { R.viol("oracle:traits-hit-miss", sid + " tag=" + std::to_string(t) + (has ? " hit" : " miss")); continue; }
			if (!has) {
				if (fp.getPos((unsigned short)t) || fp.is_mandatory((unsigned short)t) || fp.is_group((unsigned short)t)) R.viol("oracle:traits-absent-key-has-attributes", sid + " tag=" + std::to_string(t));
				continue;
			}
			if (fp.getPos((unsigned short)t) != (unsigned)it->second[0] || (it->second[1] != 2 && fp.is_mandatory((unsigned short)t) != (bool)it->second[1]) || fp.is_group((unsigned short)t) != (bool)it->second[2])
				R.viol("oracle:traits-wrong-entry", sid + " tag=" + std::to_string(t) + " pos=" + std::to_string(fp.getPos((unsigned short)t)) + " want_pos=" + std::to_string(it->second[0])
					+ " mand=" + std::to_string(fp.is_mandatory((unsigned short)t)) + "/" + std::to_string(it->second[1]) + " group=" + std::to_string(fp.is_group((unsigned short)t)) + "/" + std::to_string(it->second[2]));
			auto pit = fp.get_presence().find((unsigned short)t);
			if (pit == fp.get_presence().end() || pit->_fnum != t) R.viol("oracle:traits-wrong-entry", sid + " tag=" + std::to_string(t) + " find returned another key");
		}
	}
}

struct PElem { unsigned short k; int payload; PElem() : k(), payload() {} PElem(unsigned short kk) : k(kk), payload(kk * 3 + 1) {} };
struct PComp { bool operator()(const PElem& a, const PElem& b) const { return a.k < b.k; } };

template<typename Set, typename Elem, typename Mk, typename KeyOf>
static void pset_history(Rng& r, Set& ps, Mk mk, KeyOf keyof, const char *which)
{
	std::set<unsigned> model;
	int ops = r.range(5, 200);
	unsigned keyspace = r.chance(30) ? 12 : r.chance(50) ? 300 : 5000;
	uint64_t h = 7;
	for (int i = 0; i < ops; ++i) {
		int op = r.below(100);
		unsigned k = 1 + (unsigned)r.below(keyspace);
		h = vh::mix(h, op < 55 ? 1 : op < 85 ? 2 : op < 92 ? 3 : 4);
		R.stat("pset_ops");
		if (op < 55) {
			Elem e = mk(k);
			auto res = ps.insert(&e);
			bool want = model.insert(k).second;
			if (res.second != want) { R.viol(std::string("oracle:presorted_set-insert-result|") + which, "key=" + std::to_string(k) + " got=" + std::to_string(res.second)); return; }
			if (res.second && keyof(*res.first) != k) { R.viol(std::string("oracle:presorted_set-insert-iterator|") + which, "key=" + std::to_string(k) + " iterator points at " + std::to_string(keyof(*res.first))); return; }
		} else if (op < 85) {
			auto it = ((const Set&)ps).find(mk(k));
			bool hit = it != ((const Set&)ps).end();
			if (hit != (model.count(k) != 0)) { R.viol(std::string("oracle:presorted_set-find|") + which, "key=" + std::to_string(k) + (hit ? " hit" : " miss")); return; }
			if (hit && keyof(*it) != k) { R.viol(std::string("oracle:presorted_set-find-entry|") + which, "key=" + std::to_string(k)); return; }
		} else if (op < 92) {
			size_t idx = r.below(model.size() + 2);
			auto it = ps.at(idx);
			if (idx < model.size()) {
				auto mi = model.begin(); std::advance(mi, idx);
				if (it == ((const Set&)ps).end() || keyof(*it) != *mi) { R.viol(std::string("oracle:presorted_set-at|") + which, "idx=" + std::to_string(idx)); return; }
			} else if (it != ((const Set&)ps).end()) { R.viol(std::string("oracle:presorted_set-at-end|") + which, "idx=" + std::to_string(idx)); return; }
		} else if (op < 96 && !model.empty()) {
			ps.clear(); model.clear();
		}
		if (ps.size() != model.size() || ps.empty() != model.empty()) { R.viol(std::string("oracle:presorted_set-size|") + which, "size=" + std::to_string(ps.size()) + " want=" + std::to_string(model.size())); return; }
		if (i % 16 == 0 || i == ops - 1) {	// full order check
			auto mi = model.begin();
			for (auto it = ((const Set&)ps).begin(); it != ((const Set&)ps).end(); ++it, ++mi)
				if (keyof(*it) != *mi) { R.viol(std::string("oracle:presorted_set-order|") + which, "at key " + std::to_string(*mi)); return; }
		}
	}
	R.distinct("pset_history", h);
}

static void mode_lookup(const vh::Args& a)
{
	long long start = a.num("start", 0), cases = a.num("cases", 10);
	uint64_t seed = a.num("seed", 1);
	auto specs = load_lookup(a.str("table"));
	for (long long c = start; c < start + cases; ++c) {
		R.case_mark(c);
		if (c < (long long)specs.size()) { lookup_ctx(specs[c], ctx_of(specs[c].name)); continue; }
		Rng r(vh::mix(seed, c));
		for (int k = 0; k < 200; ++k) {
			if (k % 2) {
				presorted_set<unsigned short, PElem, PComp> ps((size_t)0, (size_t)r.range(1, 40));
				pset_history<decltype(ps), PElem>(r, ps, [](unsigned k) { return PElem((unsigned short)k); }, [](const PElem& e) { return (unsigned)e.k; }, "generic");
			} else {
				Presence ps((size_t)0, (size_t)r.range(1, 40));
				pset_history<Presence, FieldTrait>(r, ps, [](unsigned k) { return FieldTrait((unsigned short)k); }, [](const FieldTrait& e) { return (unsigned)e._fnum; }, "fieldtrait");
			}
			R.stat("pset_histories");
		}
		// a presorted_set seeded from a sorted array (the generated-code path), then grown
		for (int k = 0; k < 50; ++k) {
			std::vector<PElem> init; int n = r.range(1, 30); int v = 0;
			std::set<unsigned> chk;
			for (int i = 0; i < n; ++i) { v += r.range(1, 9); init.push_back(PElem((unsigned short)(v * 100))); chk.insert(v * 100); }
			presorted_set<unsigned short, PElem, PComp> ps(init.data(), init.size(), (size_t)r.range(1, 100));
			for (int i = 0; i < 60; ++i) {
				PElem key((unsigned short)(r.range(1, 9 * 30 + 5) * 100 / (r.chance(50) ? 1 : 2)));
				auto res = ps.insert(&key);
				bool want = chk.insert(key.k).second;
				if (res.second != want) R.viol("oracle:presorted_set-insert-result|generic-seeded", std::to_string(key.k));
				else if (res.second && res.first->k != key.k) R.viol("oracle:presorted_set-insert-iterator|generic-seeded", std::to_string(key.k));
			}
			auto mi = chk.begin();
			bool okk = ps.size() == chk.size();
			for (auto it = ((const decltype(ps)&)ps).begin(); okk && it != ((const decltype(ps)&)ps).end(); ++it, ++mi) if ((unsigned)it->k != *mi) okk = false;
			if (!okk) R.viol("oracle:presorted_set-order|generic-seeded", "after growth");
			R.stat("pset_histories");
		}
	}
}

int main(int argc, char **argv)
{
	vh::Args a(argc, argv);
	std::string mode = a.pos.empty() ? "" : a.pos[0];
	try {
		if (mode == "chksum") mode_chksum(a);
		else if (mode == "ints") mode_ints(a);
		else if (mode == "floats") mode_floats(a);
		else if (mode == "dates") mode_dates(a);
		else if (mode == "dow") mode_dow(a);
		else if (mode == "realm") mode_realm(a);
		else if (mode == "lookup") mode_lookup(a);
		else { fprintf(stderr, "unknown mode\n"); return 2; }
	} catch (const std::exception& e) {
		R.viol("harness:exception", e.what());
	}
	R.done();
	return 0;
}
