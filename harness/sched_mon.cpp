// sched_mon: C24.  (a) Schedule::test stepped over three weeks of a virtual clock against an independently computed window membership;
// (b) decode_dow over every string of length 0..3 over a 100-byte alphabet against a reference decoder written from the statement.
#include <fix8/f8includes.hpp>
#include "vh.hpp"
#include <dlfcn.h>
#include <atomic>
#include <sstream>

using namespace FIX8;
static vh::Report R;

static std::atomic<long long> g_now_ns{0};
extern "C" int clock_gettime(clockid_t id, struct timespec *ts)
{
	typedef int (*fn_t)(clockid_t, struct timespec *);
	static fn_t real = (fn_t)dlsym(RTLD_NEXT, "clock_gettime");
	const long long n = g_now_ns.load(std::memory_order_relaxed);
	if (id == CLOCK_REALTIME && n) { ts->tv_sec = n / 1000000000LL; ts->tv_nsec = n % 1000000000LL; return 0; }
	return real(id, ts);
}

static const long long DAY = 86400LL * 1000000000LL, SEC = 1000000000LL, MIN = 60 * SEC;

// reference: is the local instant (utc ns + offset) inside the schedule's window?
static bool ref_active(long long utc_ns, long long start_tod, long long end_tod, int off_min, int sd, int ed)
{
	const long long local = utc_ns + off_min * MIN;
	const long long tod = ((local % DAY) + DAY) % DAY;
	if (sd < 0) return start_tod <= tod && tod <= end_tod;
	const long long days = (local - tod) / DAY;
	const int wday = (int)(((days + 4) % 7 + 7) % 7);	// 1970-01-01 was a Thursday
	const long long w = wday * DAY + tod, ws = sd * DAY + start_tod, we = ed * DAY + end_tod;
	return ws <= we ? (ws <= w && w <= we) : (w >= ws || w <= we);
}

static const char *dnames[] = {"su", "mo", "tu", "we", "th", "fr", "sa"};

static void schedule_case(long long n, uint64_t seed)
{
	vh::Rng r(seed * 7919 + n);
	R.case_mark(n);
	long long st = r.range(0, 86398), en = r.range(st + 1, 86399);
	if (r.chance(30)) { st = r.range(0, 23) * 3600; en = std::min<long long>(86399, st + r.range(1, 12) * 3600); }
	int off = r.chance(40) ? 0 : (int)r.range(-720, 840);
	int sd = -1, ed = -1;
	const int shape = (int)(n % 4);	// 0 daily, 1 weekly sd<ed, 2 weekly wrap sd>ed, 3 weekly same day
	if (shape == 1) { sd = (int)r.range(0, 5); ed = (int)r.range(sd + 1, 6); }
	else if (shape == 2) { sd = (int)r.range(1, 6); ed = (int)r.range(0, sd - 1); }
	else if (shape == 3) { sd = ed = (int)r.range(0, 6); }
	const bool via_xml = r.chance(50);
	const bool omit_end_day = via_xml && shape == 3 && r.chance(60);	// the configuration default: end_day = start_day
	char b1[16], b2[16];
	snprintf(b1, sizeof b1, "%02lld:%02lld:%02lld", st / 3600, st % 3600 / 60, st % 60);
	snprintf(b2, sizeof b2, "%02lld:%02lld:%02lld", en / 3600, en % 3600 / 60, en % 60);
	Schedule sch;
	std::string how;
	if (via_xml) {
		std::ostringstream x;
		x << "<?xml version='1.0' encoding='ISO-8859-1'?>\n<fix8>\n<schedule name=\"s\" start_time=\"" << b1 << "\" end_time=\"" << b2 << "\" utc_offset_mins=\"" << off << "\"";
		if (sd >= 0) x << " start_day=\"" << (r.chance(50) ? std::string(dnames[sd]) : std::to_string(sd)) << "\"";
		if (sd >= 0 && !omit_end_day) x << " end_day=\"" << (r.chance(50) ? std::string(dnames[ed]) : std::to_string(ed)) << "\"";
		x << "/>\n</fix8>\n";
		std::istringstream is(x.str());
		Configuration conf(is);
		const XmlElement *root = conf.get_root();
		const XmlElement *el = root ? root->find("fix8/schedule") : nullptr;
		if (!el) { R.viol("harness:schedule-element-not-found", x.str()); return; }
		sch = conf.create_schedule(el);
		how = "xml";
	} else {
		sch = Schedule(Tickval((Tickval::ticks)(st * SEC)), Tickval((Tickval::ticks)(en * SEC)), Tickval(), off, sd, ed);
		how = "direct";
	}
	const char *shape_name = shape == 0 ? "daily" : shape == 1 ? "weekly" : shape == 2 ? "weekly-wrapping" : "weekly-same-day";
	long long t = (1700000000LL + (long long)r.below(400 * 86400)) * SEC + r.below(1000) * 1000000LL + 1;
	const long long tend = t + 21 * DAY;
	bool state = r.chance(50);
	const bool init_state = state;
	long long checks = 0, flips = 0, settle = 0;
	bool reported = false;
	while (t < tend) {
		g_now_ns = t;
		const bool prev = state;
		state = sch.test(prev);
		const bool want = ref_active(t, st * SEC, en * SEC, off, sd, ed);
		++checks;
		if (state != prev) ++flips;
		if (state != want && !reported) {
			// the first check has to correct a wrong initial state as well: the statement speaks of every checked instant
			const std::string phase = checks == 1 ? (init_state == want ? "first-check" : "first-check-with-wrong-initial-state") : "later-check";
			char d[400];
			const long long local = t + off * MIN, tod = ((local % DAY) + DAY) % DAY;
			snprintf(d, sizeof d, "%s via %s start=%s end=%s utc_offset=%d start_day=%d end_day=%d%s: at local day-of-week %d time %02lld:%02lld:%02lld (check %lld, previous state %d) test()=%d, window membership=%d",
				shape_name, how.c_str(), b1, b2, off, sd, ed, omit_end_day ? " (end_day defaulted)" : "", (int)((((local - tod) / DAY + 4) % 7 + 7) % 7), tod / SEC / 3600, tod / SEC % 3600 / 60, tod / SEC % 60, checks, (int)prev, (int)state, (int)want);
			R.viol(std::string("oracle:schedule-state-wrong|") + shape_name + "|" + (want ? "inactive-inside-window" : "active-outside-window") + "|" + phase, d);
			reported = true;
			state = want;	// resynchronise so that one defect does not mask a different one later in the same run
		} else if (state != want) { state = want; ++settle; }
		t += r.range(20, 60) * SEC + r.below(1000) * 1000000LL;
	}
	g_now_ns = 0;
	R.stat("schedule_checks", checks);
	R.stat("schedules");
	R.stat("state_transitions_observed", flips);
	R.distinct("schedule", vh::mix(vh::mix(st, en), vh::mix((uint64_t)(off + 1000), (uint64_t)((sd + 1) * 8 + ed + 1))));
	if (R.want_sample() && n % 5 == 0) {
		char d[256];
		snprintf(d, sizeof d, "{\"shape\":\"%s\",\"via\":\"%s\",\"start\":\"%s\",\"end\":\"%s\",\"utc_offset\":%d,\"start_day\":%d,\"end_day\":%d,\"checks\":%lld,\"transitions\":%lld}", shape_name, how.c_str(), b1, b2, off, sd, ed, checks, flips);
		R.sample(d);
	}
}

// reference decoder from the statement: digit 0-6 alone; otherwise the unique one- or two-letter prefix (case-insensitive)
static int ref_dow(const std::string& s)
{
	if (s.empty()) return -1;
	auto lc = [](char c) { return (c >= 'A' && c <= 'Z') ? (char)(c + 32) : c; };
	if (s.size() == 1 && s[0] >= '0' && s[0] <= '6') return s[0] - '0';
	const char a = lc(s[0]);
	if (a == 'm') return 1;
	if (a == 'w') return 3;
	if (a == 'f') return 5;
	if (s.size() < 2) return -1;
	const char b = lc(s[1]);
	if (a == 's') return b == 'u' ? 0 : b == 'a' ? 6 : -1;
	if (a == 't') return b == 'u' ? 2 : b == 'h' ? 4 : -1;
	return -1;
}

static void dow_all()
{
	R.case_mark(-1);
	std::string al;
	for (char c = 'a'; c <= 'z'; ++c) { al += c; al += (char)(c - 32); }
	for (char c = '0'; c <= '9'; ++c) al += c;
	for (const char *p = " -_./:;,!?*+=#@$%&()[]{}<>|~^'\"\\`\t\n"; *p; ++p) al += *p;
	al += (char)0x80; al += (char)0xe9; al += (char)0xff;
	long long n = 0;
	std::string s;
	auto one = [&](const std::string& x) {
		++n;
		const int got = decode_dow(x), want = ref_dow(x);
		if (got != want) R.viol(std::string("oracle:decode-dow-wrong|") + (want < 0 ? "accepts-non-weekday" : got < 0 ? "rejects-weekday" : "wrong-day") + "|length-" + std::to_string(x.size()),
			"decode_dow(\"" + vh::vis(x) + "\") = " + std::to_string(got) + ", reference " + std::to_string(want));
	};
	one("");
	for (char a : al) { s.assign(1, a); one(s); for (char b : al) { s.assign(1, a); s += b; one(s); for (char c : al) { s.resize(2); s += c; one(s); } } }
	for (const char *w : {"sunday", "MONDAY", "Tuesday", "wednesday", "thursday", "friday", "saturday", "sun", "mon", "tue", "wed", "thu", "fri", "sat", "7", "00", "10", "-1"}) one(w);
	R.stat("decode_dow_strings", n);
	R.stat("decode_dow_alphabet", (long long)al.size());
}

int main(int argc, char **argv)
{
	vh::Args a(argc, argv);
	setvbuf(stdout, nullptr, _IOLBF, 0);
	GlobalLogger::set_levels(Logger::Levels(Logger::None));
	const uint64_t seed = a.num("seed", 1);
	const long long start = a.num("start", 0), cases = a.num("cases", 1);
	if (a.has("dow")) dow_all();
	else for (long long n = start; n < start + cases; ++n) schedule_case(n, seed);
	R.done();
	return 0;
}
