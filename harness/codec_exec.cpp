// codec_exec: generic, reflection-driven executor for the message codec (C01 C02 C03 C04 C05 C06 C11).
// Reads a script (written by the python side from its own schema model), performs the operations with
// the real API and prints one observation line per step.  The oracles live in python.
//
// script:  CASE <n> <ctx>            start of a case
//          M <msgtype>               message to build
//          H|F|T <fnum> <hexvalue>   add a field to header / current body-or-element / trailer
//          G <fnum> / E / e / g      begin group, begin element, end element, end group
//          RAW <hex>                 raw bytes for decode operations
//          DO <op> ...               ENC DEC CLONE COPY MOVE RAWDEC[:nochk][:perm] ENCPTR
//          END
// output:  O <n> <op> <status> <hex or dump>
#include <fix8/f8includes.hpp>
#if defined VERIF_GEN_SCHEMA	// compiled against one generated schema (prefix gen, namespace GEN): C13/C14
#include "gen_types.hpp"
#include "gen_router.hpp"
#include "gen_classes.hpp"
#else
#include "utest_types.hpp"
#include "utest_router.hpp"
#include "utest_classes.hpp"
#include "f44_types.hpp"
#include "f44_router.hpp"
#include "f44_classes.hpp"
#endif
#include "vh.hpp"
#include <fstream>
#include <cxxabi.h>

using namespace FIX8;
static vh::Report R;

#if defined VERIF_GEN_SCHEMA
static const F8MetaCntx& ctx_of(const std::string&) { return GEN::ctx(); }
#else
static const F8MetaCntx& ctx_of(const std::string& n) { return n == "utest" ? UTEST::ctx() : F44::ctx(); }
#endif

static std::string field_text(const BaseField *f)
{
	char *buf = new char[FIX8_MAX_FLD_LENGTH + 64];
	size_t n = f->print(buf);
	std::string s(buf, n);
	delete[] buf;
	return s;
}

// canonical dump: fields in position order "tag=hex," ; group "tag=hex{[...][...]}" ; unknown "?hex"
static void dump_mb(const MessageBase *mb, std::string& out)
{
	const BaseField *checksum = nullptr;
	for (auto& pp : mb->get_positions()) {
		const BaseField *f = pp.second;
		// CheckSum is kept at a fixed internal position and always encoded last: list it last
		if (f->get_tag() == Common_CheckSum && mb->get_msgtype() == "trailer") { checksum = f; continue; }
		out += std::to_string(f->get_tag()) + "=" + vh::hex(field_text(f));
		if (mb->get_fp().is_group(f->get_tag())) {
			const GroupBase *gb = mb->find_group(f->get_tag());
			out += "{";
			if (gb) for (size_t i = 0; i < gb->size(); ++i) { out += "["; dump_mb(gb->get_element((unsigned)i), out); out += "]"; }
			out += "}";
		}
		out += ",";
	}
	if (checksum) out += std::to_string(checksum->get_tag()) + "=" + vh::hex(field_text(checksum)) + ",";
	if (!mb->get_unknown().empty()) out += "?" + vh::hex(mb->get_unknown()) + ",";
}

static std::string dump_msg(const Message *m)
{
	std::string o = "H:";
	dump_mb(m->Header(), o);
	o += " B:"; dump_mb(m, o);
	o += " T:"; dump_mb(m->Trailer(), o);
	return o;
}

struct Step { char kind; unsigned fnum; std::string val; };
struct Case { long long n; std::string ctx, mtype, raw, cls; std::vector<Step> steps; std::vector<std::string> ops; };

static std::string exc_name(const std::exception& e)
{
	int st; char *d = abi::__cxa_demangle(typeid(e).name(), nullptr, nullptr, &st);
	std::string s = d ? d : typeid(e).name();
	free(d);
	return s;
}

static Message *build(const Case& c, const F8MetaCntx& ctx)
{
	Message *m = ctx.create_msg(c.mtype.c_str());
	if (!m) throw std::runtime_error("harness: create_msg failed for " + c.mtype);
	std::vector<MessageBase *> stack{m};
	std::vector<GroupBase *> gstack;
	for (auto& s : c.steps) {
		switch (s.kind) {
		case 'H': case 'F': case 'T': {
			MessageBase *tgt = s.kind == 'H' ? m->Header() : s.kind == 'T' ? m->Trailer() : stack.back();
			BaseField *f = ctx.create_field((unsigned short)s.fnum, s.val.c_str());
			if (!f) throw std::runtime_error("harness: create_field failed for " + std::to_string(s.fnum));
			if (!tgt->add_field(f)) { delete f; throw std::runtime_error("harness: add_field refused " + std::to_string(s.fnum)); }
			break; }
		case 'G': {
			MessageBase *owner = stack.size() == 1 && gstack.empty() ? (s.val == "H" ? m->Header() : s.val == "T" ? m->Trailer() : stack.back()) : stack.back();
			GroupBase *gb = owner->find_group((unsigned short)s.fnum);
			if (!gb && stack.size() == 1 && gstack.empty() && owner->get_fp().is_group((unsigned short)s.fnum))
				gb = owner->find_add_group((unsigned short)s.fnum);
			if (!gb) throw std::runtime_error("harness: no group " + std::to_string(s.fnum));
			gstack.push_back(gb);
			break; }
		case 'E': { MessageBase *el = gstack.back()->create_group(true); stack.push_back(el); break; }
		case 'e': { MessageBase *el = stack.back(); stack.pop_back(); *gstack.back() << el; break; }
		case 'g': gstack.pop_back(); break;
		}
	}
	return m;
}

static void run_case(const Case& c)
{
	R.case_mark(c.n);
	const F8MetaCntx& ctx = ctx_of(c.ctx);
	std::string encoded;
	for (auto& op : c.ops) {
		std::string st = "ok", payload;
		fprintf(stderr, "@CLASS %s%s%s\n", op.c_str(), c.cls.empty() ? "" : "|", c.cls.c_str());
		try {
			if (op == "ENC" || op == "ENCPTR") {
				std::unique_ptr<Message> m(build(c, ctx));
				if (op == "ENC") { f8String w; m->encode(w); encoded = w; }
				else {
					// exact-size heap buffer: FIX8_MAX_MSG_LENGTH + HEADER_CALC_OFFSET as the library's own callers use
					char *buf = new char[FIX8_MAX_MSG_LENGTH + HEADER_CALC_OFFSET], *ptr = buf;
					size_t n = m->encode(&ptr);
					encoded.assign(ptr, n);
					delete[] buf;
				}
				payload = vh::hex(encoded);
			} else if (op == "DEC") {
				// decode what ENC produced, dump, re-encode
				char *exact = new char[encoded.size()];	// exact-size copy: over-reads hit a red zone
				memcpy(exact, encoded.data(), encoded.size());
				f8String in(exact, encoded.size());
				delete[] exact;
				std::unique_ptr<Message> d(Message::factory(ctx, in));
				payload = dump_msg(d.get());
				printf("O %lld DECDUMP ok %s\n", c.n, payload.c_str());
				f8String w2; d->encode(w2);
				payload = vh::hex(w2);
				printf("O %lld REENC ok %s\n", c.n, payload.c_str());
				continue;
			} else if (op == "CLONE") {
				std::unique_ptr<Message> m(build(c, ctx));
				std::unique_ptr<Message> cl(m->clone());
				f8String w; cl->encode(w);
				payload = vh::hex(w);
			} else if (op == "COPY" || op == "MOVE") {
				std::unique_ptr<Message> m(build(c, ctx));
				std::unique_ptr<Message> t(ctx.create_msg(c.mtype.c_str(), true));
				unsigned cnt = 0;
				if (op == "COPY") { cnt += m->Header()->copy_legal(t->Header()); cnt += m->copy_legal(t.get()); cnt += m->Trailer()->copy_legal(t->Trailer()); }
				else { cnt += m->Header()->move_legal(t->Header()); cnt += m->move_legal(t.get()); cnt += m->Trailer()->move_legal(t->Trailer()); }
				f8String w; t->encode(w);
				payload = std::to_string(cnt) + " " + vh::hex(w);
			} else if (op.compare(0, 6, "RAWDEC") == 0) {
				const bool nochk = op.find(":nochk") != std::string::npos, perm = op.find(":perm") != std::string::npos,
					noreenc = op.find(":noreenc") != std::string::npos;
				char *exact = new char[c.raw.size() + 1];	// exact-size heap copy: over-reads hit a red zone
				memcpy(exact, c.raw.data(), c.raw.size());
				f8String in(exact, c.raw.size());
				delete[] exact;
				if (in.size() < 16) in.reserve(16);	// leave the small-string buffer: reads before data() then hit a heap red zone
				std::unique_ptr<Message> d(Message::factory(ctx, in, nochk, perm));
				if (!d) { st = "null"; }
				else {
					payload = dump_msg(d.get());
					printf("O %lld %s ok %s\n", c.n, op.c_str(), payload.c_str());
					if (noreenc) continue;
					f8String w2; d->encode(w2);
					printf("O %lld %s-REENC ok %s\n", c.n, op.c_str(), vh::hex(w2).c_str());
					continue;
				}
			}
		} catch (const f8Exception& e) { st = "f8exc"; payload = vh::hex(exc_name(e) + ": " + e.what()); }
		catch (const std::exception& e) { st = std::string(e.what()).compare(0, 8, "harness:") == 0 ? "harness" : "stdexc"; payload = vh::hex(exc_name(e) + ": " + e.what()); }
		printf("O %lld %s %s %s\n", c.n, op.c_str(), st.c_str(), payload.c_str());
	}
}

int main(int argc, char **argv)
{
	vh::Args a(argc, argv);
	setvbuf(stdout, nullptr, _IOLBF, 0);	// complete lines survive a sanitizer abort
	R.case_seconds = (unsigned)a.num("case-seconds", 10);
	std::ifstream in(a.str("script"));
	if (!in) { fprintf(stderr, "cannot open script\n"); return 2; }
	long long start = a.num("start", 0), cases = a.num("cases", 1LL << 60);
	std::string line;
	Case cur; bool have = false;
	while (std::getline(in, line)) {
		if (line.empty()) continue;
		std::istringstream is(line);
		std::string k; is >> k;
		if (k == "CASE") { cur = Case(); is >> cur.n >> cur.ctx; have = true; }
		else if (k == "M") is >> cur.mtype;
		else if (k == "H" || k == "F" || k == "T") { Step s; s.kind = k[0]; std::string hv; is >> s.fnum >> hv; s.val = vh::unhex(hv); cur.steps.push_back(s); }
		else if (k == "G") { Step s; s.kind = 'G'; is >> s.fnum >> s.val; cur.steps.push_back(s); }
		else if (k == "E" || k == "e" || k == "g") { Step s; s.kind = k[0]; s.fnum = 0; cur.steps.push_back(s); }
		else if (k == "CLASS") { std::getline(is, cur.cls); while (!cur.cls.empty() && cur.cls[0] == ' ') cur.cls.erase(0, 1); }
		else if (k == "RAW") { std::string hv; is >> hv; cur.raw = vh::unhex(hv); }
		else if (k == "DO") { std::string op; while (is >> op) cur.ops.push_back(op); }
		else if (k == "END") {
			if (have && cur.n >= start && cur.n < start + cases) { run_case(cur); R.stat("cases"); }
			have = false;
		}
	}
	R.done();
	return 0;
}
