// queue_mon: C30.  The real ff::uMPMC_Ptr_Queue (and the two ff_unbounded_queue wrappers) under
//   --mode stress : real threads, seeded spin delays at the verification hook points (H2), unique element ids;
//   --mode random : controlled schedules of the REAL code: every thread parks at every hook point and at every operation boundary,
//                   a scheduler picks who runs next (seeded, PCT-like: random priorities with a few priority change points);
//   --mode dfs    : stateless depth-first enumeration (re-execution along a choice prefix) with a pre-emption bound, tiny configurations.
// Oracle, exact, from the ticket each push/pop obtained at its slot reservation (hook events) and a logical clock:
//   tickets of pushes are 0..N-1 each once; a pop holding ticket t returns the element whose push held ticket t; every element popped
//   exactly once (after a final single-threaded drain); each producer's tickets increase in program order; a pop may report "empty" only
//   if for some head position it could have seen, the push holding that ticket had not been published before the pop began.
#include <fix8/f8includes.hpp>
#include "vh.hpp"
#include <atomic>
#include <condition_variable>
#include <mutex>
#include <thread>

using namespace FIX8;
static vh::Report R;

enum { EV_CALL_PUSH = 100, EV_RET_PUSH, EV_CALL_POP, EV_RET_POP_OK, EV_RET_POP_EMPTY };
struct Ev { int kind; unsigned long ticket; long long clk; uint64_t elem; };

struct ThreadCtx {
	int id = 0;
	std::vector<Ev> log;
	vh::Rng rng{1};
	int delay_pct = 0;
	int last_point = -1;		// for the spin rule of the scheduler
	bool progressed = true;
};
static thread_local ThreadCtx *tctx = nullptr;
static std::atomic<long long> g_clock{0};
static int g_mode = 0;	// 0 stress, 1 scheduled

// ---------------------------------------------------------------------------------------- cooperative scheduler
struct Sched {
	std::mutex m;
	std::condition_variable cv;
	int running = -1;
	struct St { bool parked = false, finished = false, spinning = false; long long spin_step = 0; int at = -1; };
	std::vector<St> st;
	long long step = 0;
	std::vector<long long> last_move;	// step of the last move of each thread
	void park(int id, int kind, bool spinning) {
		std::unique_lock<std::mutex> l(m);
		st[id].parked = true; st[id].at = kind; st[id].spinning = spinning; st[id].spin_step = step;
		running = -1;
		cv.notify_all();
		cv.wait(l, [&] { return running == id; });
		st[id].parked = false;
	}
	void finish(int id) { std::unique_lock<std::mutex> l(m); st[id].finished = true; st[id].parked = false; running = -1; cv.notify_all(); }
};
static Sched *g_sched = nullptr;

static void hook(int kind, unsigned long ticket)
{
	ThreadCtx *c = tctx;
	if (!c) return;
	c->log.push_back({kind, ticket, g_clock.fetch_add(1), 0});
	if (g_mode == 0) {
		if (c->delay_pct && (int)c->rng.below(100) < c->delay_pct) {
			const unsigned k = (unsigned)c->rng.below(4);
			if (k == 0) sched_yield();
			else for (volatile unsigned i = 0, n = (unsigned)c->rng.below(k == 1 ? 50 : k == 2 ? 500 : 5000); i < n; ++i) ;
		}
		return;
	}
	// scheduled: a thread that comes back to a loop head without having reserved anything is spinning
	const bool loop = kind == ff::VERIF_PUSH_LOOP || kind == ff::VERIF_POP_LOOP;
	const bool spinning = loop && c->last_point == kind;
	c->last_point = kind;
	g_sched->park(c->id, kind, spinning);
}

// H3: after every completed push to / pop from a single-writer single-reader buffer (data segments, the segment pool's cache and
// in-use lists).  Used when a queue is built from tiny segments, so that segment switching and recycling happen all the time.
static bool g_swsr_points = false;
static void swsr_hook(int kind, const void *)
{
	ThreadCtx *c = tctx;
	if (!c || !g_swsr_points) return;
	if (g_mode == 0) {
		if (c->delay_pct && (int)c->rng.below(100) < c->delay_pct) {
			const unsigned k = (unsigned)c->rng.below(4);
			if (k == 0) sched_yield();
			else for (volatile unsigned i = 0, n = (unsigned)c->rng.below(k == 1 ? 50 : k == 2 ? 500 : 5000); i < n; ++i) ;
		}
		return;
	}
	c->log.push_back({kind, 0, g_clock.fetch_add(1), 0});
	c->last_point = kind;
	g_sched->park(c->id, kind, false);
}

// ---------------------------------------------------------------------------------------- operations
struct Plan { int producers, consumers, pushes, pops; int nq = 0, size = 0; };	// nq/size: segment geometry (0 = the queue's defaults)

template<typename Q> struct Ops;
template<> struct Ops<ff::uMPMC_Ptr_Queue> {
	static const bool has_geometry = true;
	static void init(ff::uMPMC_Ptr_Queue& q) { q.init(); }
	static void init_geometry(ff::uMPMC_Ptr_Queue& q, int nq, int size) { q.init((unsigned long)nq, (size_t)size); }
	static void push(ff::uMPMC_Ptr_Queue& q, uint64_t *slot) { q.push(slot); }
	static bool pop(ff::uMPMC_Ptr_Queue& q, uint64_t& id) { void *p = nullptr; if (!q.pop(&p)) return false; id = *(uint64_t *)p; return true; }
};
template<> struct Ops<ff_unbounded_queue<uint64_t *>> {
	static const bool has_geometry = false;
	static void init(ff_unbounded_queue<uint64_t *>&) {}
	static void init_geometry(ff_unbounded_queue<uint64_t *>&, int, int) {}
	static void push(ff_unbounded_queue<uint64_t *>& q, uint64_t *slot) { q.try_push(slot); }
	static bool pop(ff_unbounded_queue<uint64_t *>& q, uint64_t& id) { uint64_t *p = nullptr; if (!q.try_pop(p)) return false; id = *p; return true; }
};
template<> struct Ops<ff_unbounded_queue<uint64_t>> {
	static const bool has_geometry = false;
	static void init(ff_unbounded_queue<uint64_t>&) {}
	static void init_geometry(ff_unbounded_queue<uint64_t>&, int, int) {}
	static void push(ff_unbounded_queue<uint64_t>& q, uint64_t *slot) { q.try_push(*slot); }
	static bool pop(ff_unbounded_queue<uint64_t>& q, uint64_t& id) { uint64_t *p = nullptr; if (!q.try_pop(p)) return false; id = *p; q.release(p); return true; }
};

template<typename Q>
static void do_push(Q& q, ThreadCtx& c, uint64_t *slot)
{
	c.last_point = -1;
	if (g_mode == 1) g_sched->park(c.id, EV_CALL_PUSH, false);
	c.log.push_back({EV_CALL_PUSH, 0, g_clock.fetch_add(1), *slot});
	Ops<Q>::push(q, slot);
	c.log.push_back({EV_RET_PUSH, 0, g_clock.fetch_add(1), *slot});
}
template<typename Q>
static bool do_pop(Q& q, ThreadCtx& c)
{
	c.last_point = -1;
	if (g_mode == 1) g_sched->park(c.id, EV_CALL_POP, false);
	c.log.push_back({EV_CALL_POP, 0, g_clock.fetch_add(1), 0});
	uint64_t id = 0;
	const bool ok = Ops<Q>::pop(q, id);
	c.log.push_back({ok ? EV_RET_POP_OK : EV_RET_POP_EMPTY, 0, g_clock.fetch_add(1), id});
	return ok;
}

// ---------------------------------------------------------------------------------------- verdict
struct PushOp { uint64_t elem; long ticket; long long call, published, ret; int thread; };
struct PopOp { uint64_t elem; long ticket; long long call, ret; bool ok; int thread; };

static bool judge(const std::vector<ThreadCtx *>& ctxs, size_t npushed, const std::string& what, std::string& detail, std::string& key)
{
	std::vector<PushOp> pushes; std::vector<PopOp> pops;
	std::vector<long long> reserved_clk;	// clocks of POP_RESERVED events
	for (auto *c : ctxs) {
		PushOp pu{}; PopOp po{}; bool inpush = false, inpop = false;
		long last_ticket = -1;
		for (auto& e : c->log) {
			switch (e.kind) {
			case EV_CALL_PUSH: pu = PushOp{e.elem, -1, e.clk, -1, -1, c->id}; inpush = true; break;
			case ff::VERIF_PUSH_RESERVED: if (inpush) pu.ticket = (long)e.ticket; break;
			case ff::VERIF_PUSH_PUBLISHED: if (inpush) pu.published = e.clk; break;
			case EV_RET_PUSH: pu.ret = e.clk; inpush = false;
				if (pu.ticket <= last_ticket) { key = "oracle:producer-order-broken"; detail = what + ": a producer's later push got ticket " + std::to_string(pu.ticket) + " after ticket " + std::to_string(last_ticket); return false; }
				last_ticket = pu.ticket; pushes.push_back(pu); break;
			case EV_CALL_POP: po = PopOp{0, -1, e.clk, -1, false, c->id}; inpop = true; break;
			case ff::VERIF_POP_RESERVED: if (inpop) po.ticket = (long)e.ticket; reserved_clk.push_back(e.clk); break;
			case EV_RET_POP_OK: po.ret = e.clk; po.ok = true; po.elem = e.elem; inpop = false; pops.push_back(po); break;
			case EV_RET_POP_EMPTY: po.ret = e.clk; po.ok = false; inpop = false; pops.push_back(po); break;
			default: break;
			}
		}
	}
	std::sort(reserved_clk.begin(), reserved_clk.end());
	if (pushes.size() != npushed) { key = "harness:push-count"; detail = what; return false; }
	std::map<long, const PushOp *> by_ticket;
	for (auto& p : pushes) {
		if (p.ticket < 0 || p.ticket >= (long)npushed || by_ticket.count(p.ticket)) {
			key = "oracle:push-ticket-not-unique-or-out-of-range"; detail = what + ": ticket " + std::to_string(p.ticket) + " of element " + std::to_string(p.elem); return false; }
		by_ticket[p.ticket] = &p;
	}
	std::map<uint64_t, int> seen; std::set<long> pop_tickets;
	for (auto& p : pops) {
		if (!p.ok) continue;
		if (p.ticket < 0 || !pop_tickets.insert(p.ticket).second) { key = "oracle:pop-ticket-not-unique"; detail = what + ": ticket " + std::to_string(p.ticket); return false; }
		auto it = by_ticket.find(p.ticket);
		if (it == by_ticket.end()) { key = "oracle:pop-of-ticket-never-pushed"; detail = what + ": pop ticket " + std::to_string(p.ticket) + " returned element " + std::to_string(p.elem); return false; }
		if (it->second->elem != p.elem) {
			key = "oracle:pop-returned-element-of-another-ticket";
			detail = what + ": pop holding ticket " + std::to_string(p.ticket) + " returned element " + std::to_string(p.elem) + ", the push holding that ticket stored element " + std::to_string(it->second->elem);
			return false;
		}
		if (++seen[p.elem] > 1) { key = "oracle:element-popped-twice"; detail = what + ": element " + std::to_string(p.elem); return false; }
	}
	if (seen.size() != npushed) {
		key = "oracle:element-lost"; detail = what + ": " + std::to_string(npushed) + " pushed, " + std::to_string(seen.size()) + " popped (incl. final drain)"; return false; }
	std::vector<long long> okpop_call;
	for (auto& p : pops) if (p.ok) okpop_call.push_back(p.call);
	std::sort(okpop_call.begin(), okpop_call.end());
	for (auto& p : pops) {
		if (p.ok) continue;
		// head positions this pop may have seen: the number of reservations made before it began .. before it returned
		const long r0 = std::lower_bound(reserved_clk.begin(), reserved_clk.end(), p.call) - reserved_clk.begin();
		// (event clocks are stamped after the atomic step they report: a reservation is certain once stamped, and possible from the
		// moment its pop was called)
		const long r1 = std::lower_bound(okpop_call.begin(), okpop_call.end(), p.ret) - okpop_call.begin();
		bool excusable = false;
		for (long pr = r0; pr <= r1 && !excusable; ++pr) {
			auto it = by_ticket.find(pr);
			if (it == by_ticket.end() || it->second->published < 0 || it->second->published > p.call) excusable = true;
		}
		if (!excusable) {
			key = "oracle:empty-although-head-element-fully-pushed";
			detail = what + ": pop (clock " + std::to_string(p.call) + ".." + std::to_string(p.ret) + ") reported empty; head positions " + std::to_string(r0) + ".." + std::to_string(r1) + " were all published before it began";
			return false;
		}
	}
	return true;
}

// ---------------------------------------------------------------------------------------- stress
template<typename Q>
static void stress_case(long long n, uint64_t seed, const char *qname)
{
	vh::Rng r(seed * 6151 + n);
	const int producers = (int)r.range(1, 8), consumers = (int)r.range(1, 8);
	const long total = (long)(r.chance(20) ? r.range(20000, 120000) : r.range(200, 20000));
	const long per = std::max<long>(1, total / producers);
	const int delay = r.chance(60) ? (int)r.range(1, 30) : 0;
	// half of the runs on the bare queue use tiny segments: a sub-queue then switches and recycles segments constantly
	const bool tiny = Ops<Q>::has_geometry && r.chance(50);
	const int gq = tiny ? (int)r.range(1, 4) : 0, gs = tiny ? (int)r.range(2, 16) : 0;
	g_swsr_points = tiny;
	Q q; if (tiny) Ops<Q>::init_geometry(q, gq, gs); else Ops<Q>::init(q);
	std::vector<uint64_t> ids((size_t)per * producers);
	for (size_t i = 0; i < ids.size(); ++i) ids[i] = i + 1;
	std::vector<ThreadCtx> ctx(producers + consumers + 1);
	std::atomic<long> popped{0};
	std::atomic<int> producers_done{0};
	std::vector<std::thread> th;
	for (int p = 0; p < producers; ++p) th.emplace_back([&, p] {
		ThreadCtx& c = ctx[p]; c.id = p; c.rng = vh::Rng(seed + n * 131 + p); c.delay_pct = delay; tctx = &c;
		for (long i = 0; i < per; ++i) do_push(q, c, &ids[(size_t)p * per + i]);
		tctx = nullptr; ++producers_done;
	});
	for (int k = 0; k < consumers; ++k) th.emplace_back([&, k] {
		ThreadCtx& c = ctx[producers + k]; c.id = producers + k; c.rng = vh::Rng(seed + n * 137 + 50 + k); c.delay_pct = delay; tctx = &c;
		long empties = 0;
		while (popped.load() < per * producers) {
			if (do_pop(q, c)) { ++popped; empties = 0; }
			else { if (producers_done.load() == producers && ++empties > 2000) break; if (c.log.size() > 4000000) break; sched_yield(); }
		}
		tctx = nullptr;
	});
	for (auto& t : th) t.join();
	// final single-threaded drain
	ThreadCtx& d = ctx[producers + consumers]; d.id = producers + consumers; tctx = &d;
	while (do_pop(q, d)) ;
	tctx = nullptr;
	std::vector<ThreadCtx *> all; for (auto& c : ctx) all.push_back(&c);
	std::string detail, key;
	g_swsr_points = false;
	char w[200]; snprintf(w, sizeof w, "%s stress producers=%d consumers=%d elements=%ld delay=%d%% segments=%s", qname, producers, consumers, per * producers, delay, tiny ? (std::to_string(gq) + "x" + std::to_string(gs)).c_str() : "default");
	if (tiny) R.stat("stress_runs_tiny_segments");
	if (!judge(all, (size_t)per * producers, w, detail, key)) R.viol(key + "|stress", detail);
	long long evs = 0; for (auto& c : ctx) evs += (long long)c.log.size();
	R.stat("stress_runs"); R.stat("stress_elements", per * producers); R.stat("hook_events", evs);
	R.distinct("stress_config", vh::mix(vh::mix(producers, consumers), vh::mix(per, vh::hash_str(qname))));
	if (R.want_sample() && n % 3 == 0) { char s[256]; snprintf(s, sizeof s, "{\"mode\":\"stress\",\"queue\":\"%s\",\"producers\":%d,\"consumers\":%d,\"elements\":%ld,\"events\":%lld}", qname, producers, consumers, per * producers, evs); R.sample(s); }
}

// ---------------------------------------------------------------------------------------- controlled schedules
struct Choice { std::vector<int> enabled; int chosen; int current; };

// one execution of the plan under the scheduler; `forced` = prefix of choices (indices into the enabled list); returns the choice trace
static bool run_scheduled(const Plan& pl, const std::vector<int>& forced, vh::Rng *rnd, std::vector<Choice>& trace, uint64_t& sched_hash,
	std::string& key, std::string& detail, int max_steps, bool& pruned)
{
	const int nth = pl.producers + pl.consumers;
	ff::uMPMC_Ptr_Queue q; if (pl.nq) q.init((unsigned long)pl.nq, (size_t)pl.size); else q.init();
	g_swsr_points = pl.nq != 0;
	std::vector<uint64_t> ids((size_t)pl.producers * pl.pushes);
	for (size_t i = 0; i < ids.size(); ++i) ids[i] = i + 1;
	std::vector<ThreadCtx> ctx(nth + 1);
	Sched sc; sc.st.resize(nth); sc.last_move.assign(nth, -1);
	g_sched = &sc; g_clock = 0;
	std::vector<std::thread> th;
	for (int p = 0; p < pl.producers; ++p) th.emplace_back([&, p] {
		ThreadCtx& c = ctx[p]; c.id = p; tctx = &c;
		for (int i = 0; i < pl.pushes; ++i) do_push(q, c, &ids[(size_t)p * pl.pushes + i]);
		tctx = nullptr; sc.finish(p);
	});
	for (int k = 0; k < pl.consumers; ++k) th.emplace_back([&, k] {
		ThreadCtx& c = ctx[pl.producers + k]; c.id = pl.producers + k; tctx = &c;
		for (int i = 0; i < pl.pops; ++i) do_pop(q, c);
		tctx = nullptr; sc.finish(pl.producers + k);
	});
	// PCT-like priorities for the random mode
	std::vector<int> prio(nth);
	for (int i = 0; i < nth; ++i) prio[i] = rnd ? (int)rnd->below(1000) : 0;
	int current = -1;
	pruned = false;
	sched_hash = 1469598103934665603ULL;
	bool stuck = false;
	for (int stepno = 0;; ++stepno) {
		std::unique_lock<std::mutex> l(sc.m);
		sc.cv.wait(l, [&] { if (sc.running != -1) return false; for (auto& s : sc.st) if (!s.parked && !s.finished) return false; return true; });
		std::vector<int> en;
		bool any_live = false;
		for (int i = 0; i < nth; ++i) {
			if (sc.st[i].finished) continue;
			any_live = true;
			// a spinning thread becomes eligible again once another thread has moved since it started to spin
			bool other_moved = false;
			for (int j = 0; j < nth; ++j) if (j != i && sc.last_move[j] >= sc.st[i].spin_step) other_moved = true;
			if (sc.st[i].spinning && !other_moved) continue;
			en.push_back(i);
		}
		if (!any_live) break;
		if (en.empty()) { stuck = true; for (int i = 0; i < nth; ++i) if (!sc.st[i].finished) en.push_back(i); }
		if (stepno >= max_steps) { pruned = true; }
		int pick;
		if ((size_t)stepno < forced.size() && forced[stepno] < (int)en.size()) pick = forced[stepno];
		else if (rnd) {
			if (rnd->below(100) < 6) prio[rnd->below(nth)] = (int)rnd->below(1000);	// priority change point
			pick = 0;
			for (size_t k = 1; k < en.size(); ++k) if (prio[en[k]] > prio[en[pick]]) pick = (int)k;
			if (rnd->below(100) < 10) pick = (int)rnd->below(en.size());
		} else {
			pick = 0;
			for (size_t k = 0; k < en.size(); ++k) if (en[k] == current) pick = (int)k;	// default: no pre-emption
		}
		if (pruned) { pick = 0; for (size_t k = 0; k < en.size(); ++k) if (en[k] == current) pick = (int)k; }
		trace.push_back({en, pick, current});
		current = en[pick];
		sched_hash = (sched_hash ^ (uint64_t)(current * 16 + sc.st[current].at % 16)) * 1099511628211ULL;
		++sc.step; sc.last_move[current] = sc.step;
		sc.running = current;
		sc.cv.notify_all();
		if (stuck && stepno > max_steps * 4) break;
	}
	for (auto& t : th) t.join();
	g_mode = 0;		// the drain below runs unscheduled
	ThreadCtx& d = ctx[nth]; d.id = nth; tctx = &d;
	while (do_pop(q, d)) ;
	tctx = nullptr;
	g_mode = 1;
	g_sched = nullptr;
	std::vector<ThreadCtx *> all; for (auto& c : ctx) all.push_back(&c);
	g_swsr_points = false;
	char w[200]; snprintf(w, sizeof w, "scheduled producers=%d x %d pushes, consumers=%d x %d pops, segments=%s, %zu steps", pl.producers, pl.pushes, pl.consumers, pl.pops, pl.nq ? (std::to_string(pl.nq) + "x" + std::to_string(pl.size)).c_str() : "default", trace.size());
	if (stuck) { key = "oracle:all-threads-spinning"; detail = w; return false; }
	return judge(all, ids.size(), w, detail, key);
}

static std::string trace_str(const std::vector<Choice>& t)
{
	std::string s;
	for (auto& c : t) { s += (char)('0' + c.enabled[c.chosen]); }
	return s;
}

static void random_case(long long n, uint64_t seed, int schedules)
{
	vh::Rng r(seed * 7907 + n);
	Plan pl{(int)r.range(2, 3), (int)r.range(1, 2), (int)r.range(1, 3), 0};
	int max_steps = 400;
	if (r.chance(35)) {
		// tiny segments: with 1-2 sub-queues of 2-3 slots a handful of pushes makes the producers switch segments and the consumers
		// recycle them; the steps of that (H3) are scheduling points too
		pl.pushes = (int)r.range(3, 7); pl.nq = (int)r.range(1, 2); pl.size = (int)r.range(2, 3); max_steps = 3000;
		R.stat("random_cases_tiny_segments");
	}
	pl.pops = (int)r.range(1, pl.producers * pl.pushes + 1);
	if (pl.nq) pl.pops = std::max(pl.pops, pl.producers * pl.pushes / pl.consumers);	// the consumers must get through segments
	for (int s = 0; s < schedules; ++s) {
		vh::Rng rr(seed * 1000003 + n * 4099 + s);
		std::vector<Choice> tr; uint64_t h; std::string key, detail; bool pruned;
		const bool ok = run_scheduled(pl, {}, &rr, tr, h, key, detail, max_steps, pruned);
		R.stat("schedules_random"); R.stat("schedule_steps", (long long)tr.size());
		if (pruned) R.stat("schedules_pruned");
		R.distinct("schedule", h);
		if (!ok) R.viol(key + "|random-schedule", detail + " schedule=" + trace_str(tr));
		if (R.want_sample() && s == 0 && n % 2 == 0) { R.sample("{\"mode\":\"random-schedule\",\"producers\":" + std::to_string(pl.producers) + ",\"pushes\":" + std::to_string(pl.pushes) + ",\"consumers\":" + std::to_string(pl.consumers) + ",\"pops\":" + std::to_string(pl.pops) + ",\"thread_order\":\"" + trace_str(tr) + "\"}"); }
	}
}

static void dfs_case(long long n, uint64_t seed, long budget, int bound)
{
	// configuration n picks the plan; enumeration is exhaustive for that plan within the pre-emption bound (or stops at the budget)
	static const Plan plans[] = {{2, 1, 1, 2}, {2, 1, 1, 3}, {2, 1, 2, 3}, {2, 2, 1, 1}, {2, 2, 1, 2}, {2, 1, 2, 5}, {3, 1, 1, 3}, {2, 2, 2, 2}};
	const Plan pl = plans[n % (sizeof plans / sizeof plans[0])];
	std::vector<int> forced;
	long runs = 0; bool complete = false;
	for (;;) {
		std::vector<Choice> tr; uint64_t h; std::string key, detail; bool pruned;
		const bool ok = run_scheduled(pl, forced, nullptr, tr, h, key, detail, 400, pruned);
		++runs;
		R.stat("schedules_dfs"); R.stat("schedule_steps", (long long)tr.size());
		if (pruned) R.stat("schedules_pruned");
		R.distinct("schedule", h);
		if (!ok) { R.viol(key + "|enumerated-schedule", detail + " schedule=" + trace_str(tr)); break; }
		// next prefix: deepest step with an untried alternative inside the pre-emption bound
		std::vector<int> pre(tr.size() + 1, 0);
		for (size_t i = 0; i < tr.size(); ++i) {
			const bool preempt = tr[i].current >= 0 && tr[i].enabled[tr[i].chosen] != tr[i].current
				&& std::find(tr[i].enabled.begin(), tr[i].enabled.end(), tr[i].current) != tr[i].enabled.end();
			pre[i + 1] = pre[i] + (preempt ? 1 : 0);
		}
		long i = (long)tr.size() - 1;
		for (; i >= 0; --i) {
			// alternatives are tried in the order: default (index of current or 0) first, then the others ascending
			const auto& c = tr[i];
			int def = 0; for (size_t k = 0; k < c.enabled.size(); ++k) if (c.enabled[k] == c.current) def = (int)k;
			std::vector<int> order{def}; for (int k = 0; k < (int)c.enabled.size(); ++k) if (k != def) order.push_back(k);
			size_t pos = std::find(order.begin(), order.end(), c.chosen) - order.begin();
			bool found = false;
			for (size_t k = pos + 1; k < order.size(); ++k) {
				const bool preempt = c.current >= 0 && std::find(c.enabled.begin(), c.enabled.end(), c.current) != c.enabled.end() && c.enabled[order[k]] != c.current;
				if (pre[i] + (preempt ? 1 : 0) <= bound) { forced.clear(); for (long j = 0; j < i; ++j) forced.push_back(tr[j].chosen); forced.push_back(order[k]); found = true; break; }
			}
			if (found) break;
		}
		if (i < 0) { complete = true; break; }
		if (runs >= budget) break;
	}
	R.stat(complete ? "dfs_plans_enumerated_completely" : "dfs_plans_stopped_at_budget");
	if (R.want_sample()) R.sample("{\"mode\":\"dfs\",\"producers\":" + std::to_string(pl.producers) + ",\"pushes\":" + std::to_string(pl.pushes) + ",\"consumers\":" + std::to_string(pl.consumers) + ",\"pops\":" + std::to_string(pl.pops) + ",\"preemption_bound\":" + std::to_string(bound) + ",\"schedules\":" + std::to_string(runs) + ",\"complete\":" + (complete ? "true" : "false") + "}");
}

int main(int argc, char **argv)
{
	vh::Args a(argc, argv);
	setvbuf(stdout, nullptr, _IOLBF, 0);
	GlobalLogger::set_levels(Logger::Levels(Logger::None));
	const uint64_t seed = a.num("seed", 1);
	const long long start = a.num("start", 0), cases = a.num("cases", 1);
	const std::string mode = a.str("mode", "stress");
	ff::verif_mpmc_hook() = hook;
	ff::verif_swsr_hook() = swsr_hook;
	R.case_seconds = (unsigned)a.num("case-seconds", 300);
	for (long long n = start; n < start + cases; ++n) {
		R.case_mark(n);
		if (mode == "stress") {
			g_mode = 0;
			switch (n % 3) {
			case 0: stress_case<ff::uMPMC_Ptr_Queue>(n, seed, "uMPMC_Ptr_Queue"); break;
			case 1: stress_case<ff_unbounded_queue<uint64_t *>>(n, seed, "ff_unbounded_queue<T*>"); break;
			default: stress_case<ff_unbounded_queue<uint64_t>>(n, seed, "ff_unbounded_queue<T>"); break;
			}
		} else if (mode == "random") { g_mode = 1; random_case(n, seed, (int)a.num("schedules", 200)); }
		else { g_mode = 1; dfs_case(n, seed, a.num("budget", 3000), (int)a.num("bound", 2)); }
	}
	R.done();
	return 0;
}
