// rotate_fs (C29): log / store rotation against a directory-snapshot oracle.
#include <fix8/f8includes.hpp>
#include "vh.hpp"
#include <dirent.h>
#include <fstream>
#include <sys/stat.h>

using namespace FIX8;
using vh::Rng;
static vh::Report R;

typedef std::map<std::string, std::string> Snap;	// file name -> content

static Snap snapshot(const std::string& dir)
{
	Snap s;
	DIR *d = opendir(dir.c_str());
	if (!d) return s;
	while (dirent *e = readdir(d)) {
		if (e->d_name[0] == '.') continue;
		std::ifstream in(dir + "/" + e->d_name, std::ios::binary);
		std::string c((std::istreambuf_iterator<char>(in)), std::istreambuf_iterator<char>());
		s[e->d_name] = c;
	}
	closedir(d);
	return s;
}
static void wipe(const std::string& dir)
{
	for (auto& kv : snapshot(dir)) unlink((dir + "/" + kv.first).c_str());
}
static void put_file(const std::string& dir, const std::string& name, const std::string& content)
{
	std::ofstream o(dir + "/" + name, std::ios::binary); o << content;
}
static std::string gen(const std::string& base, unsigned k) { return k ? base + "." + std::to_string(k) : base; }

// the oracle: what a rotation with count `rot` (cap 1024) must have done to `before`
// suffix "" for logs / data files, ".idx" for the persister's index files
static void check_rotation(const Snap& before, const Snap& after, const std::string& base, const std::string& suffix, unsigned rot,
	bool rotated, const std::string& cls, const std::string& where, bool base_recreated)
{
	const unsigned cap = rot > 1024 ? 1024 : rot;
	auto name = [&](unsigned k) { return (k ? base + "." + std::to_string(k) : base) + suffix; };
	if (!rotated) {
		for (auto& kv : before) {
			if (kv.first == base || kv.first == base + ".idx") continue;	// the live file(s) may be appended to / recreated
			auto it = after.find(kv.first);
			if (it == after.end() || it->second != kv.second) R.viol("oracle:rotated-although-not-allowed|" + cls, kv.first + " changed" + where);
		}
		return;
	}
	for (unsigned k = 1; k <= cap; ++k) {
		auto src = before.find(name(k - 1));
		auto dst = after.find(name(k));
		if (src != before.end()) {
			if (dst == after.end()) R.viol("oracle:generation-lost|" + cls, name(k) + " missing; " + name(k - 1) + " existed before" + where);
			else if (dst->second != src->second) R.viol("oracle:generation-wrong-content|" + cls, name(k) + " holds '" + vh::vis(dst->second, 40) + "' expected what " + name(k - 1) + " held '" + vh::vis(src->second, 40) + "'" + where);
		}
		// if name(k-1) did not exist the statement is silent about name(k): absent or unchanged are both accepted
		else if (dst != after.end()) {
			auto old = before.find(name(k));
			if (old == before.end() || old->second != dst->second) R.viol("oracle:generation-wrong-content|" + cls, name(k) + " appeared from nowhere" + where);
		}
	}
	// nothing beyond the configured number is created; other files untouched
	for (auto& kv : after) {
		if (before.count(kv.first)) continue;
		bool ours = false;
		for (unsigned k = 0; k <= cap; ++k) if (kv.first == gen(base, k) || kv.first == gen(base, k) + ".idx") ours = true;
		if (!ours) R.viol("oracle:unexpected-file-created|" + cls, kv.first + where);
	}
	for (auto& kv : before) {
		bool ours = false;
		for (unsigned k = 0; k <= cap; ++k) if (kv.first == name(k) || kv.first == gen(base, k) || kv.first == gen(base, k) + ".idx") ours = true;
		if (ours) continue;
		auto it = after.find(kv.first);
		if (it == after.end() || it->second != kv.second) R.viol("oracle:bystander-touched|" + cls, kv.first + where);
	}
	if (base_recreated) {
		auto b = after.find(name(0));
		if (b == after.end()) R.viol("oracle:live-file-missing|" + cls, name(0) + where);
		else if (cap > 0 && !b->second.empty() && before.count(name(0)) && b->second == before.find(name(0))->second && !b->second.empty())
			R.viol("oracle:live-file-not-fresh|" + cls, name(0) + where);
	}
}

int main(int argc, char **argv)
{
	vh::Args a(argc, argv);
	long long start = a.num("start", 0), cases = a.num("cases", 10);
	uint64_t seed = a.num("seed", 1);
	std::string dir = a.str("dir", "/dev/shm");
	char nb[40]; snprintf(nb, sizeof nb, "/rf%d", (int)getpid());
	dir += nb;
	mkdir(dir.c_str(), 0700);
	static const unsigned counts[] = {0, 1, 2, 3, 5, 17, 100, 1023, 1024, 1025, 1100, 2100, 5000};
	const bool every = a.has("everycount");

	for (long long c = start; c < start + cases; ++c) {
		R.case_mark(c);
		Rng r(vh::mix(seed, c));
		wipe(dir);
		unsigned rot = every ? (unsigned)(c % 1101) : counts[c % (sizeof counts / sizeof *counts)];
		const int mode = (int)((c / (every ? 1101 : 13)) % 4);	// 0 logger ctor, 1 logger rotate(force), 2 append (no force / force), 3 persister purge
		const std::string base = "app.log";
		// pre-existing generations: contiguous prefix, sometimes with a gap, sometimes beyond the count
		unsigned have = r.chance(20) ? 0 : (unsigned)r.below(std::min(rot + 3, 40u) + 1);
		if (rot >= 1000 && r.chance(50)) have = std::min(rot, 1024u) + (unsigned)r.below(3);
		std::vector<unsigned> gens;
		for (unsigned k = 0; k <= have; ++k) if (!(r.chance(7) && k > 0)) gens.push_back(k);
		if (r.chance(15) && !gens.empty()) gens.erase(gens.begin());	// no live file
		for (unsigned k : gens) {
			put_file(dir, gen(base, k), "content-of-generation-" + std::to_string(k) + "-case-" + std::to_string(c) + "\n");
			if (mode == 3) put_file(dir, gen(base, k) + ".idx", "index-of-generation-" + std::to_string(k) + "\n");
		}
		// bystanders
		put_file(dir, "app.log.old", "bystander-1\n");
		put_file(dir, "app.logx", "bystander-2\n");
		put_file(dir, "other.log.1", "bystander-3\n");
		put_file(dir, "app.log.1x", "bystander-4\n");
		if (r.chance(50)) put_file(dir, "app.log.0", "bystander-5\n");
		const Snap before = snapshot(dir);
		char where[200]; snprintf(where, sizeof where, " count=%u mode=%d pre-existing=%zu generations case=%lld", rot, mode, gens.size(), c);
		const std::string cls = std::string(mode == 3 ? "persister" : "logger") + (rot > 1024 ? "|count-above-1024" : "|count-le-1024");
		R.distinct("scenario", vh::mix(vh::mix(rot, mode), vh::mix(have, gens.size())));
		R.stat("rotations");
		fprintf(stderr, "@CLASS %s\n", (cls + "|rotation").c_str());
		try {
			if (mode == 0) {
				{ Logger::LogFlags flags; flags << Logger::sequence;
				  FileLogger lg(dir + "/" + base, flags, Logger::Levels(Logger::All), " ", Logger::LogPositions(), rot); lg.stop(); }
				check_rotation(before, snapshot(dir), base, "", rot, rot > 0, cls, where, true);
			} else if (mode == 1) {
				Snap mid;
				{ Logger::LogFlags flags; flags << Logger::sequence << Logger::append;
				  FileLogger lg(dir + "/" + base, flags, Logger::Levels(Logger::All), " ", Logger::LogPositions(), rot);
				  mid = snapshot(dir);
				  check_rotation(before, mid, base, "", rot, false, cls + "|append-no-force", where, false);
				  lg.rotate(true);
				  check_rotation(mid, snapshot(dir), base, "", rot, rot > 0, cls + "|append-forced", where, false);
				  lg.stop(); }
			} else if (mode == 2) {
				{ Logger::LogFlags flags; flags << Logger::sequence;
				  FileLogger lg(dir + "/" + base, flags, Logger::Levels(Logger::All), " ", Logger::LogPositions(), rot);
				  lg.send("first line"); lg.stop();
				  Snap mid = snapshot(dir);
				  lg.rotate(false);	// not append mode: rotates
				  check_rotation(mid, snapshot(dir), base, "", rot, rot > 0, cls + "|second-rotation", where, true); }
			} else {
				{ FilePersister fp(rot); if (!fp.initialise(dir, base, true)) R.viol("oracle:persister-initialise-failed|" + cls, where); }
				const Snap after = snapshot(dir);
				check_rotation(before, after, base, "", rot, rot > 0, cls, where, true);
				check_rotation(before, after, base, ".idx", rot, rot > 0, cls + "|idx", where, true);
			}
		} catch (const std::exception& e) {
			R.viol("oracle:exception|" + cls, std::string(e.what()) + where);
		}
		if (R.want_sample()) R.sample("{\"count\":" + std::to_string(rot) + ",\"mode\":" + std::to_string(mode) + ",\"pre_existing_generations\":" + std::to_string(gens.size()) + "}");
	}
	wipe(dir);
	rmdir(dir.c_str());
	R.done();
	fflush(stdout);
	_exit(0);
}
