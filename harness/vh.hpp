// Common helpers for the /verif harness executables.
// Protocol (read by pylib/runner.py):
//   stderr:  "@CASE <n>\n" before each case (so a sanitizer abort can be attributed), sanitizer reports
//   stdout:  "VIOL <key>\t<detail>"   a violation of the property's oracle (key is a stable class)
//            "STAT <name> <int>"      counters, summed over workers
//            "SAMPLE <json>"          a case written out
//            "HASH <name> <hex64>..." distinct-case hashes (unioned over workers)
//            "DONE"                   normal end; absence = crash / hang
#ifndef VERIF_VH_HPP
#define VERIF_VH_HPP
#include <cstdint>
#include <cstdio>
#include <cstdlib>
#include <cstring>
#include <map>
#include <set>
#include <string>
#include <unordered_set>
#include <vector>
#include <unistd.h>
#include <signal.h>

namespace vh {

struct Rng {
	uint64_t s;
	explicit Rng(uint64_t seed = 1) : s(seed * 0x9E3779B97F4A7C15ULL + 0x1234567ULL) { next(); next(); }
	uint64_t next() {
		uint64_t z = (s += 0x9E3779B97F4A7C15ULL);
		z = (z ^ (z >> 30)) * 0xBF58476D1CE4E5B9ULL;
		z = (z ^ (z >> 27)) * 0x94D049BB133111EBULL;
		return z ^ (z >> 31);
	}
	uint64_t below(uint64_t n) { return n ? next() % n : 0; }
	int64_t range(int64_t lo, int64_t hi) { return lo + (int64_t)below((uint64_t)(hi - lo + 1)); }
	bool chance(unsigned pct) { return below(100) < pct; }
	double unit() { return (next() >> 11) * (1.0 / 9007199254740992.0); }
};

inline uint64_t mix(uint64_t a, uint64_t b) {
	uint64_t z = a * 0x9E3779B97F4A7C15ULL ^ (b + 0x632BE59BD9B4E019ULL + (a << 6) + (a >> 2));
	z = (z ^ (z >> 30)) * 0xBF58476D1CE4E5B9ULL;
	z = (z ^ (z >> 27)) * 0x94D049BB133111EBULL;
	return z ^ (z >> 31);
}
inline uint64_t hash_bytes(const void *p, size_t n, uint64_t h = 1469598103934665603ULL) {
	const unsigned char *c = (const unsigned char *)p;
	for (size_t i = 0; i < n; ++i) { h ^= c[i]; h *= 1099511628211ULL; }
	return h;
}
inline uint64_t hash_str(const std::string& s, uint64_t h = 1469598103934665603ULL) { return hash_bytes(s.data(), s.size(), h); }

inline std::string hex(const std::string& s) {
	static const char *d = "0123456789abcdef";
	std::string o; o.reserve(s.size() * 2);
	for (unsigned char c : s) { o += d[c >> 4]; o += d[c & 15]; }
	return o;
}
inline std::string unhex(const std::string& s) {
	std::string o; o.reserve(s.size() / 2);
	auto v = [](char c) { return c <= '9' ? c - '0' : (c | 32) - 'a' + 10; };
	for (size_t i = 0; i + 1 < s.size(); i += 2) o += (char)(v(s[i]) << 4 | v(s[i + 1]));
	return o;
}
// printable rendering for details: SOH -> '|', other non printables \xNN
inline std::string vis(const std::string& s, size_t max = 400) {
	std::string o;
	char b[8];
	for (unsigned char c : s) {
		if (o.size() > max) { o += "..."; break; }
		if (c == 1) o += '|';
		else if (c == '\t') o += "\\t";
		else if (c < 32 || c > 126 || c == '\\') { snprintf(b, sizeof b, "\\x%02x", c); o += b; }
		else o += (char)c;
	}
	return o;
}
inline std::string jstr(const std::string& s) {
	std::string o = "\"";
	char b[8];
	for (unsigned char c : s) {
		if (c == '"' || c == '\\') { o += '\\'; o += (char)c; }
		else if (c < 32 || c > 126) { snprintf(b, sizeof b, "\\u%04x", c); o += b; }
		else o += (char)c;
	}
	return o + "\"";
}

struct Report {
	std::map<std::string, long long> stats;
	std::map<std::string, std::unordered_set<uint64_t>> hashes;
	std::map<std::string, int> viol_count;
	int samples = 0, max_samples = 6;
	size_t max_hashes = 150000;
	int max_per_key = 5;

	unsigned case_seconds = 0;	// per-case watchdog (0 = none): SIGALRM -> "@HANG", exit code 86
	static void on_alarm(int) { static const char m[] = "@HANG\n"; if (::write(2, m, sizeof m - 1) < 0) {} _exit(86); }
	void case_mark(long long n) {
		char b[48];
		int l = snprintf(b, sizeof b, "@CASE %lld\n", n);
		if (::write(2, b, l) < 0) {}
		if (case_seconds) { signal(SIGALRM, on_alarm); alarm(case_seconds); }
	}
	void stat(const std::string& n, long long d = 1) { stats[n] += d; }
	void distinct(const std::string& n, uint64_t h) {
		auto& s = hashes[n];
		if (s.size() < max_hashes) s.insert(h);
	}
	// returns true if this is among the first few of its key (caller may then print more detail)
	bool viol(const std::string& key, const std::string& detail) {
		int c = ++viol_count[key];
		if (c <= max_per_key) {
			printf("VIOL %s\t%s\n", key.c_str(), detail.c_str());
			fflush(stdout);
			return true;
		}
		return false;
	}
	void sample(const std::string& json) {
		if (samples < max_samples) { ++samples; printf("SAMPLE %s\n", json.c_str()); }
	}
	bool want_sample() const { return samples < max_samples; }
	void done() {
		for (auto& p : viol_count)
			if (p.second > max_per_key) printf("VIOLMORE %s\t%d\n", p.first.c_str(), p.second - max_per_key);
		for (auto& p : stats) printf("STAT %s %lld\n", p.first.c_str(), p.second);
		for (auto& p : hashes) {
			size_t i = 0;
			for (auto h : p.second) {
				if (i % 64 == 0) printf("%sHASH %s", i ? "\n" : "", p.first.c_str());
				printf(" %llx", (unsigned long long)h);
				++i;
			}
			if (i) printf("\n");
		}
		printf("DONE\n");
		fflush(stdout);
	}
};

struct Args {
	std::map<std::string, std::string> kv;
	std::vector<std::string> pos;
	Args(int argc, char **argv) {
		for (int i = 1; i < argc; ++i) {
			std::string a = argv[i];
			if (a.rfind("--", 0) == 0) {
				auto eq = a.find('=');
				if (eq != std::string::npos) kv[a.substr(2, eq - 2)] = a.substr(eq + 1);
				else if (i + 1 < argc && strncmp(argv[i + 1], "--", 2)) { kv[a.substr(2)] = argv[i + 1]; ++i; }
				else kv[a.substr(2)] = "1";
			} else pos.push_back(a);
		}
	}
	long long num(const std::string& k, long long def) const {
		auto it = kv.find(k);
		return it == kv.end() ? def : strtoll(it->second.c_str(), nullptr, 0);
	}
	std::string str(const std::string& k, const std::string& def = "") const {
		auto it = kv.find(k);
		return it == kv.end() ? def : it->second;
	}
	bool has(const std::string& k) const { return kv.count(k) != 0; }
};

} // namespace vh
#endif
