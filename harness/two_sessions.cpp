// two_sessions: C21.  An initiator and an acceptor built on the real library, in one process, real reader/writer threads (pm_thread and
// pm_pipeline), loopback TCP, FilePersisters in scratch space.  A seeded schedule of application sends on both sides, abrupt connection
// drops and restarts of either side (objects destroyed, files reopened) is executed; every delivery to either application is logged.
// Offline checker: every message whose send() succeeded is delivered to the peer's application at least once, first deliveries are in send
// order, every re-delivery is flagged PossDup, and after every reconnect both sessions become continuous again with matching numbers.
// All waits are for logical conditions with generous watchdogs; a watchdog expiry is reported as inconclusive, never as a violation.
#include <fix8/f8includes.hpp>
#include "utest_types.hpp"
#include "utest_router.hpp"
#include "utest_classes.hpp"
#include "vh.hpp"
#include <dlfcn.h>
#include <sys/socket.h>
#include <netinet/in.h>
#include <netinet/tcp.h>
#include <arpa/inet.h>
#include <poll.h>
#include <atomic>
#include <mutex>
#include <thread>
#include <Poco/Net/StreamSocketImpl.h>

using namespace FIX8;
static vh::Report R;

extern "C" int clock_nanosleep(clockid_t id, int flags, const struct timespec *req, struct timespec *rem)
{
	typedef int (*fn_t)(clockid_t, int, const struct timespec *, struct timespec *);
	typedef int (*gt_t)(clockid_t, struct timespec *);
	static fn_t real = (fn_t)dlsym(RTLD_NEXT, "clock_nanosleep");
	static gt_t rgt = (gt_t)dlsym(RTLD_NEXT, "clock_gettime");
	if (flags & TIMER_ABSTIME) {	// only the 1 s ~Session / 250 ms stop() sleeps are shortened: every thread is joined explicitly
		timespec now; rgt(id, &now);
		const long long d = (req->tv_sec - now.tv_sec) * 1000000000LL + (req->tv_nsec - now.tv_nsec);
		if (d > 100000000LL) { timespec t = now; t.tv_nsec += 2000000; if (t.tv_nsec >= 1000000000L) { t.tv_nsec -= 1000000000L; ++t.tv_sec; } return real(id, flags, &t, rem); }
	}
	return real(id, flags, req, rem);
}

struct Deliv { char side; int epoch; std::string id; unsigned seq; bool possdup; };
static std::mutex g_mx;
static std::vector<Deliv> g_deliv;
static std::vector<std::string> g_logouts, g_admin;
static int g_epoch = 0;
static std::map<std::string, std::string> g_owner;	// side+number -> ClOrdID of the message that last took that number ("" for an admin message)
static std::map<std::string, unsigned> g_number;	// ClOrdID -> number it was given

struct SideRouter : UTEST::utest_Router {
	char side;
	explicit SideRouter(char s) : side(s) {}
	bool operator()(const UTEST::NewOrderSingle *m) const override {
		UTEST::ClOrdID id; m->get(id);
		msg_seq_num sn; m->Header()->get(sn);
		poss_dup_flag pd(false); m->Header()->get(pd);
		std::lock_guard<std::mutex> g(g_mx);
		g_deliv.push_back({side, g_epoch, id(), (unsigned)sn(), pd()});
		return true;
	}
};

class AppSession : public Session {
	SideRouter _router;
public:
	AppSession(const F8MetaCntx& ctx, const SessionID& sid, Persister *p, char side) : Session(ctx, sid, p), _router(side) { _timer.clear(); _timer.stop(); _timer.join(); }
	AppSession(const F8MetaCntx& ctx, const sender_comp_id& sci, Persister *p, char side) : Session(ctx, sci, p), _router(side) { _timer.clear(); _timer.stop(); _timer.join(); }
	bool handle_application(const unsigned seqnum, const Message *&msg) override { return enforce(seqnum, msg) || msg->process(_router); }
	bool handle_logout(const unsigned seqnum, const Message *msg) override {
		text t; if (msg->get(t)) { std::lock_guard<std::mutex> g(g_mx); g_logouts.push_back(t()); }
		return Session::handle_logout(seqnum, msg);
	}
	void recover_seqnums() override {
		unsigned s0 = 0, r0 = 0; const bool ok = _persist && _persist->get(s0, r0);
		Session::recover_seqnums();
		std::lock_guard<std::mutex> g(g_mx); g_admin.push_back(std::string(1, _router.side) + " recover: persister " + (_persist ? "present" : "NULL") + " get=" + std::to_string(ok) + " " + std::to_string(s0) + "," + std::to_string(r0) + " -> " + std::to_string((unsigned)_next_send_seq) + "/" + std::to_string((unsigned)_next_receive_seq));
	}
	bool handle_logon(const unsigned seqnum, const Message *msg) override {
		const bool r = Session::handle_logon(seqnum, msg);
		{ std::lock_guard<std::mutex> g(g_mx); g_admin.push_back(std::string(1, _router.side) + " got Logon " + std::to_string(seqnum) + " (expecting " + std::to_string((unsigned)_next_receive_seq) + ", own next send " + std::to_string((unsigned)_next_send_seq) + ")"); }
		return r;
	}
	bool handle_reject(const unsigned seqnum, const Message *msg) override {
		text t; msg->get(t); ref_seq_num rs; msg->get(rs);
		std::lock_guard<std::mutex> g(g_mx); g_admin.push_back(std::string(1, _router.side) + " got Reject ref=" + std::to_string(rs()) + " '" + t() + "'");
		return true;
	}
	bool handle_sequence_reset(const unsigned seqnum, const Message *msg) override {
		new_seq_num nsn; msg->get(nsn);
		{ std::lock_guard<std::mutex> g(g_mx); g_admin.push_back(std::string(1, _router.side) + " got SeqReset " + std::to_string(seqnum) + "->" + std::to_string(nsn()) + " (expecting " + std::to_string((unsigned)_next_receive_seq) + ")"); }
		return Session::handle_sequence_reset(seqnum, msg);
	}
	bool handle_resend_request(const unsigned seqnum, const Message *msg) override {
		begin_seq_num b; end_seq_num e; msg->get(b); msg->get(e);
		{ std::lock_guard<std::mutex> g(g_mx); g_admin.push_back(std::string(1, _router.side) + " got ResendReq [" + std::to_string(b()) + "," + std::to_string(e()) + "] (next send " + std::to_string((unsigned)_next_send_seq) + ")"); }
		return Session::handle_resend_request(seqnum, msg);
	}
	void modify_outbound(Message *msg) override {
		msg_seq_num sn; msg->Header()->get(sn);
		if (!msg->Header()->have(Common_PossDupFlag)) {	// which message a number was given to (the last one, if a failed write freed the number again)
			UTEST::ClOrdID id; const bool app = msg->get(id);
			std::lock_guard<std::mutex> g(g_mx);
			g_owner[std::string(1, _router.side) + std::to_string(sn())] = app ? id() : std::string();
			if (app) g_number[id()] = sn();
		}
		if (!getenv("VERIF_C21_WIRE")) return;
		std::lock_guard<std::mutex> g(g_mx); g_admin.push_back(std::string(1, _router.side) + " out " + msg->get_msgtype() + " #" + std::to_string(sn()) + (msg->Header()->have(Common_PossDupFlag) ? "d" : "") + " (next " + std::to_string((unsigned)_next_send_seq) + ")");
	}
	unsigned ns() const { return _next_send_seq; }
	unsigned nr() const { return _next_receive_seq; }
	Persister *persister() { return _persist; }
	States::SessionStates st() const { return _state; }
};

static Message *mk_order(const std::string& id)
{
	auto *nos = new UTEST::NewOrderSingle;
	*nos << new UTEST::ClOrdID(id) << new UTEST::TransactTime << new UTEST::HandlInst('1') << new UTEST::Symbol("SYM")
		  << new UTEST::OrdType('1') << new UTEST::Side('1') << new UTEST::OrderQty(100);
	return nos;
}

struct Side {
	char name;
	std::unique_ptr<AppSession> ses;
	Connection *conn = nullptr;
	Poco::Net::StreamSocket *sock = nullptr;
	Persister *own_persist = nullptr;	// deleted here: the connection is deleted before the session, so not even an acceptor session deletes it
	int fd = -1;
	void destroy() {
		if (ses) { try { ses->stop(); } catch (...) {} }
		delete conn; conn = nullptr;
		ses.reset();
		delete sock; sock = nullptr;
		delete own_persist; own_persist = nullptr;
		fd = -1;
	}
};

// The two sessions talk through a forwarding thread, so that a partition can be injected: from one instant on everything either side
// writes is accepted by its socket and silently lost (what a dying network path does), in both directions at once.
struct Proxy {
	int a = -1, b = -1;
	std::atomic<bool> stop{false}, blackhole{false};
	std::thread th;
	void run() {
		char buf[65536];
		bool open_a = true, open_b = true;
		while (!stop.load()) {
			pollfd p[2] = {{a, (short)(open_a ? POLLIN : 0), 0}, {b, (short)(open_b ? POLLIN : 0), 0}};
			if (!open_a && !open_b) { std::this_thread::sleep_for(std::chrono::milliseconds(2)); continue; }
			if (poll(p, 2, 5) <= 0) continue;
			for (int k = 0; k < 2; ++k) {
				if (!(p[k].revents & (POLLIN | POLLHUP | POLLERR))) continue;
				const int from = k ? b : a, to = k ? a : b;
				const ssize_t got = recv(from, buf, sizeof buf, MSG_DONTWAIT);
				if (got > 0) { if (!blackhole.load()) { ssize_t off = 0; while (off < got) { const ssize_t w = ::send(to, buf + off, (size_t)(got - off), MSG_NOSIGNAL); if (w <= 0) break; off += w; } } }
				else if (got == 0 || (errno != EAGAIN && errno != EINTR)) { (k ? open_b : open_a) = false; ::shutdown(to, SHUT_WR); }	// pass the close on
			}
		}
	}
	void start(int fa, int fb) { a = fa; b = fb; stop = false; blackhole = false; th = std::thread([this] { run(); }); }
	void end() { if (th.joinable()) { stop = true; th.join(); } if (a >= 0) ::close(a); if (b >= 0) ::close(b); a = b = -1; }
};

static void two_case(long long n, uint64_t seed, const std::string& dir)
{
	vh::Rng r(seed * 48271 + n);
	R.case_mark(n);
	{ std::lock_guard<std::mutex> g(g_mx); g_deliv.clear(); g_logouts.clear(); g_admin.clear(); g_owner.clear(); g_number.clear(); g_epoch = 0; }
	const ProcessModel pm = (n % 2) ? pm_thread : pm_pipeline;
	const std::string base = dir + "/c21_" + std::to_string(n);
	int lsn = socket(AF_INET, SOCK_STREAM, 0);
	int one = 1; setsockopt(lsn, SOL_SOCKET, SO_REUSEADDR, &one, sizeof one);
	sockaddr_in a{}; a.sin_family = AF_INET; a.sin_addr.s_addr = htonl(INADDR_LOOPBACK); a.sin_port = 0;
	if (bind(lsn, (sockaddr *)&a, sizeof a) || listen(lsn, 4)) { perror("listen"); exit(2); }
	socklen_t l = sizeof a; getsockname(lsn, (sockaddr *)&a, &l);
	Poco::Net::SocketAddress addr("127.0.0.1", ntohs(a.sin_port));
	int lsnA = socket(AF_INET, SOCK_STREAM, 0);
	setsockopt(lsnA, SOL_SOCKET, SO_REUSEADDR, &one, sizeof one);
	sockaddr_in aa{}; aa.sin_family = AF_INET; aa.sin_addr.s_addr = htonl(INADDR_LOOPBACK); aa.sin_port = 0;
	if (bind(lsnA, (sockaddr *)&aa, sizeof aa) || listen(lsnA, 4)) { perror("listen"); exit(2); }
	l = sizeof aa; getsockname(lsnA, (sockaddr *)&aa, &l);
	Proxy proxy;
	Side I{'I'}, A{'A'};
	std::vector<std::pair<char, std::string>> sent;	// (sending side, id) in send order, only sends that returned true
	std::string trace;
	bool first_connect = true, inconclusive = false, failed = false;
	char d[400];

	auto connect_both = [&]() -> bool {
		{ std::lock_guard<std::mutex> g(g_mx); ++g_epoch; }
		LoginParameters lp; lp._login_retries = 1; lp._connect_timeout = 2; lp._always_seqnum_assign = false;
		auto *fpi = new FilePersister; const bool oki = fpi->initialise(dir, "c21_" + std::to_string(n) + ".I", first_connect);
		auto *fpa = new FilePersister; const bool oka = fpa->initialise(dir, "c21_" + std::to_string(n) + ".A", first_connect);
		unsigned cs = 0, cr = 0; const bool hc = fpa->get(cs, cr);
		{ std::lock_guard<std::mutex> g(g_mx); g_admin.push_back("epoch " + std::to_string(g_epoch) + ": stores opened " + std::to_string(oki) + "/" + std::to_string(oka) + ", acceptor control " + (hc ? std::to_string(cs) + "," + std::to_string(cr) : "none")); }
		first_connect = false;
		I.own_persist = fpi;
		I.ses.reset(new AppSession(UTEST::ctx(), SessionID(UTEST::ctx()._beginStr, "INI", "ACC"), fpi, 'I'));
		I.ses->set_login_parameters(lp);
		I.sock = new Poco::Net::StreamSocket;
		I.conn = new ClientConnection(I.sock, addr, *I.ses, 30, pm, true);
		if (I.ses->start(I.conn, false)) { return false; }
		const int pi = accept(lsn, nullptr, nullptr);	// the initiator's connection ends at the forwarder ...
		const int pa = socket(AF_INET, SOCK_STREAM, 0);
		if (pi < 0 || pa < 0 || connect(pa, (sockaddr *)&aa, sizeof aa)) { perror("forwarder"); exit(2); }
		setsockopt(pi, IPPROTO_TCP, TCP_NODELAY, &one, sizeof one); setsockopt(pa, IPPROTO_TCP, TCP_NODELAY, &one, sizeof one);
		const int fd = accept(lsnA, nullptr, nullptr);	// ... which connects on to the acceptor
		proxy.end();
		proxy.start(pi, pa);
		A.fd = fd;
		A.own_persist = fpa;
		A.sock = new Poco::Net::StreamSocket(new Poco::Net::StreamSocketImpl(fd));
		A.ses.reset(new AppSession(UTEST::ctx(), sender_comp_id("ACC"), fpa, 'A'));
		A.ses->set_login_parameters(lp);
		A.conn = new ServerConnection(A.sock, addr, *A.ses, 30, pm, true);
		A.ses->start(A.conn, false);
		return true;
	};
	// both continuous, numbers agree, nothing moving: the logical quiescent point (watchdog 20 s -> inconclusive)
	auto settle = [&](const char *when) -> int {
		unsigned last[4] = {0, 0, 0, 0}; int stable = 0, quiet = 0, nudges = 0;
		unsigned nudge_mark[2] = {0, 0};
		for (int i = 0; i < 60000; ++i) {
			if (!I.ses || !A.ses) return 0;
			const unsigned cur[4] = {I.ses->ns(), I.ses->nr(), A.ses->ns(), A.ses->nr()};
			const bool agree = I.ses->st() == States::st_continuous && A.ses->st() == States::st_continuous && cur[0] == cur[3] && cur[2] == cur[1];
			if (agree && !memcmp(cur, last, sizeof cur)) { if (++stable > 20) return 1; } else stable = 0;
			// quiet but not in agreement: a message lost in flight shows only when the next one arrives; in production the heartbeat
			// does that within HeartBtInt - here (timers stopped) both sides send one every 300 ms of disagreement
			quiet = memcmp(cur, last, sizeof cur) ? 0 : quiet + 1;
			if (!agree && quiet >= 300 && States::is_established(I.ses->st()) && States::is_established(A.ses->st())) {	/* never before the logon is complete */
				// the previous pair of heartbeats has been numbered by its senders (the machine is not just slow) and still no agreement:
				// after 25 such exchanges this is no longer a matter of time - the sessions are stuck
				if (nudges && (cur[0] == nudge_mark[0] || cur[2] == nudge_mark[1])) { quiet = 0; memcpy(last, cur, sizeof cur); std::this_thread::sleep_for(std::chrono::milliseconds(1)); continue; }
				if (nudges >= 25) {
					snprintf(d, sizeof d, "%s: no agreement after %d heartbeat exchanges that both sides numbered (initiator %s next %u/%u, acceptor %s next %u/%u); trace=%s", when, nudges,
						Session::get_session_state_string(I.ses->st()).c_str(), cur[0], cur[1], Session::get_session_state_string(A.ses->st()).c_str(), cur[2], cur[3], trace.c_str());
					return -2;
				}
				nudge_mark[0] = cur[0]; nudge_mark[1] = cur[2];
				try { I.ses->send(I.ses->generate_heartbeat("")); A.ses->send(A.ses->generate_heartbeat("")); } catch (...) {}
				++nudges; quiet = 0;
			}
			memcpy(last, cur, sizeof cur);
			if (I.ses->is_shutdown() || A.ses->is_shutdown()) {
				// give the terminating side a moment to finish, then report
				std::this_thread::sleep_for(std::chrono::milliseconds(20));
				snprintf(d, sizeof d, "%s: a session terminated (initiator state %s next %u/%u, acceptor state %s next %u/%u); logout texts: %s; trace=%s", when,
					Session::get_session_state_string(I.ses->st()).c_str(), cur[0], cur[1], Session::get_session_state_string(A.ses->st()).c_str(), cur[2], cur[3],
					g_logouts.empty() ? "-" : g_logouts.back().c_str(), trace.c_str());
				return -1;
			}
			std::this_thread::sleep_for(std::chrono::milliseconds(1));
		}
		snprintf(d, sizeof d, "%s: not settled after 60 s (initiator %s %u/%u, acceptor %s %u/%u); trace=%s", when, Session::get_session_state_string(I.ses->st()).c_str(), I.ses->ns(), I.ses->nr(),
			Session::get_session_state_string(A.ses->st()).c_str(), A.ses->ns(), A.ses->nr(), trace.c_str());
		return 0;
	};
	// a send counts as sent when the library took responsibility for it: pm_thread - send() returned true (it is numbered, stored and
	// written before send() returns); pm_pipeline - send() only queues, so the send is complete once the writer thread has given this
	// message a number and the session's send number has moved past it (a message still queued when the session is destroyed was
	// never the library's responsibility; watching only the send number is wrong while a Logon or a replay is being numbered too)
	auto do_send = [&](Side& sd, const std::string& id) -> bool {
		if (!sd.ses) return false;
		const unsigned before = sd.ses->ns();
		bool ok = false;
		try { ok = sd.ses->send(mk_order(id)); } catch (...) { return false; }
		if (!ok || pm != pm_pipeline) return ok;
		for (int i = 0; i < 300; ++i) {
			{
				std::lock_guard<std::mutex> g(g_mx);
				auto it = g_number.find(id);
				if (it != g_number.end() && sd.ses->ns() > it->second) {	// numbered, and the number has moved on (which happens after the message is stored)
					auto ow = g_owner.find(std::string(1, sd.name) + std::to_string(it->second));
					return ow != g_owner.end() && ow->second == id;
				}
			}
			std::this_thread::sleep_for(std::chrono::milliseconds(1));
		}
		(void)before;
		return false;
	};
	const std::string cls = pm == pm_thread ? "pm_thread" : "pm_pipeline";
	auto admin_tail = [&](size_t maxlen) {
		std::string adm; std::lock_guard<std::mutex> g(g_mx);
		for (auto& x : g_admin) adm += x + "; ";
		if (getenv("VERIF_C21_WIRE")) {	// diagnosis: everything, and the delivery log
			adm += " deliveries: ";
			for (auto& e : g_deliv) adm += std::string(1, e.side) + "<-" + e.id + "#" + std::to_string(e.seq) + (e.possdup ? "d" : "") + "@" + std::to_string(e.epoch) + " ";
			for (Side *sd : {&I, &A}) if (sd->ses && sd->ses->persister()) for (unsigned q = 1; q < sd->ses->ns(); ++q) {
				f8String m; if (!sd->ses->persister()->get(q, m)) continue;
				try { delete Message::factory(UTEST::ctx(), m); }
				catch (std::exception& e) { for (auto& c : m) if (c == 1) c = '|'; adm += std::string(" STORE ") + sd->name + "#" + std::to_string(q) + " undecodable (" + e.what() + "): " + m; }
			}
			return " admin-events: " + adm;
		}
		return " admin-events: " + adm.substr(adm.size() > maxlen ? adm.size() - maxlen : 0); };
	int ident = 0, faults = 0;
	if (!connect_both()) { R.viol("inconclusive:connect-failed", "initial connect"); goto out; }
	{
		int s = settle("after first logon");
		if (s < 0) { R.viol(std::string(s == -2 ? "oracle:sessions-stuck-without-agreement|" : "oracle:sessions-do-not-establish|") + cls, d); failed = true; goto out; }
		if (s == 0) { inconclusive = true; R.viol("inconclusive:settle-watchdog", d); goto out; }
	}
	for (int step = 0, steps = (int)r.range(3, 25); step < steps && !failed && !inconclusive; ++step) {
		const int k = (int)r.below(100);
		if (k < 60) {
			Side& sd = r.chance(50) ? I : A;
			const int cnt = (int)r.range(1, 4);
			for (int j = 0; j < cnt; ++j) {
				const std::string id = std::string(1, sd.name) + std::to_string(n) + "_" + std::to_string(++ident);
				if (do_send(sd, id)) { sent.push_back({sd.name, id}); trace += sd.name; } else trace += 'x';
			}
			if (r.chance(50)) std::this_thread::sleep_for(std::chrono::microseconds(r.range(0, 2000)));
		} else {
			// a fault: abrupt drop of the connection, or one side dies; optionally sends into the void; then both sides come back
			++faults;
			const int f = (int)r.below(4);
			if (r.chance(50)) {	// otherwise the fault hits traffic in flight
				// sessions that are stuck here stay stuck until something from outside (the fault below) happens to them: a violation too
				if (settle("before the next fault") == -2) { R.viol("oracle:sessions-stuck-without-agreement|" + cls, d + admin_tail(1500)); failed = true; break; }
			}
			if (f == 0) { trace += "[drop"; if (A.fd >= 0) ::shutdown(A.fd, SHUT_RDWR); }
			else if (f == 3) { trace += "[part"; proxy.blackhole = true; }	/* partition: whatever either side sends from now on is lost */
			else if (f == 1) { trace += "[killI"; I.destroy(); }
			else { trace += "[killA"; A.destroy(); }
			std::this_thread::sleep_for(std::chrono::milliseconds(r.range(0, 5)));
			// sends while disconnected: they count only if send() reported success
			for (int j = 0, cnt = (int)r.range(f == 3 ? 1 : 0, f == 3 ? 4 : 3); j < cnt; ++j) {
				Side& sd = f == 3 ? (j % 2 ? A : I) : r.chance(50) ? I : A;
				if (!sd.ses) continue;
				const std::string id = std::string(1, sd.name) + std::to_string(n) + "_" + std::to_string(++ident);
				const bool ok = do_send(sd, id);
				if (ok) { sent.push_back({sd.name, id}); trace += (char)tolower(sd.name); } else trace += 'x';
			}
			I.destroy(); A.destroy(); proxy.end();
			trace += "]";
			if (!connect_both()) { inconclusive = true; R.viol("inconclusive:connect-failed", trace); break; }
			if (r.chance(40)) {
				// go on sending while the recovery is still under way - but only once both logons are complete (an application that sends
				// on an acceptor session before its logon would overwrite the recovered numbers: an application error)
				bool up = false;
				for (int i = 0; i < 20000 && !up; ++i) {
					up = States::is_established(I.ses->st()) && States::is_established(A.ses->st()) && I.ses->st() != States::st_logon_received && A.ses->st() != States::st_logon_received;
					if (I.ses->is_shutdown() || A.ses->is_shutdown()) break;
					if (!up) std::this_thread::sleep_for(std::chrono::milliseconds(1));
				}
				if (up) { trace += "~"; continue; }
			}
			const int s = settle("after reconnect");
			if (s == -2) { R.viol("oracle:sessions-stuck-without-agreement|" + cls, d + admin_tail(1500)); failed = true; break; }
			if (s < 0) {
				R.viol("oracle:sessions-do-not-re-establish|" + cls, std::string(d) + admin_tail(1200)); failed = true; break; }
			if (s == 0) { inconclusive = true; R.viol("inconclusive:settle-watchdog", d); break; }
		}
	}
	if (!failed && !inconclusive) {
		const int s = settle("at the end");
		if (s < 0) { R.viol(std::string(s == -2 ? "oracle:sessions-stuck-without-agreement|" : "oracle:session-terminated|") + cls, d + admin_tail(1500)); failed = true; }
		else if (s == 0) { inconclusive = true; R.viol("inconclusive:settle-watchdog", d); }
	}
	if (!failed && !inconclusive) {
		// ---- offline checker over the delivery log
		std::vector<Deliv> log; { std::lock_guard<std::mutex> g(g_mx); log = g_deliv; }
		for (char to : {'I', 'A'}) {
			const char from = to == 'I' ? 'A' : 'I';
			std::map<std::string, int> count; std::vector<std::string> first_order;
			for (auto& e : log) if (e.side == to) {
				if (++count[e.id] == 1) first_order.push_back(e.id);
				else if (!e.possdup) { snprintf(d, sizeof d, "%s delivered again to %c (number %u, epoch %d) without PossDupFlag; trace=%s", e.id.c_str(), to, e.seq, e.epoch, trace.c_str()); R.viol("oracle:redelivery-without-possdup|" + cls, d); failed = true; }
			}
			std::vector<std::string> want;
			for (auto& s : sent) if (s.first == from) want.push_back(s.second);
			for (auto& id : want) if (!count.count(id)) {
				// where did it get to?  (diagnosis only)
				Side& snd = from == 'I' ? I : A;
				Side& rcv = from == 'I' ? A : I;
				long stored_at = -1;
				if (snd.ses) for (unsigned q = 1; q < snd.ses->ns(); ++q) { f8String to_; if (snd.ses->persister()->get(q, to_) && to_.find("\00111=" + id + "\001") != f8String::npos) { stored_at = q; break; } }
				snprintf(d, sizeof d, "%s (sent by %c, send() returned true) was never delivered to %c; %zu sent, %zu delivered; stored by the sender under number %ld, sender next send %u, receiver expects %u; faults=%d trace=%s", id.c_str(), from, to, want.size(), first_order.size(),
					stored_at, snd.ses ? snd.ses->ns() : 0, rcv.ses ? rcv.ses->nr() : 0, faults, trace.c_str());
				R.viol("oracle:message-never-delivered|" + cls, std::string(d) + admin_tail(1500)); failed = true; break;
			}
			if (!failed) {
				// first deliveries in send order (ids that were never reported as sent - send() returned false but the bytes went out - are skipped)
				std::vector<std::string> fo; std::set<std::string> ws(want.begin(), want.end());
				for (auto& id : first_order) if (ws.count(id)) fo.push_back(id);
				if (fo != want) { snprintf(d, sizeof d, "first deliveries to %c are not in send order; trace=%s", to, trace.c_str()); R.viol("oracle:first-deliveries-out-of-order|" + cls, d); failed = true; }
			}
		}
		R.stat("messages_sent", (long long)sent.size());
		R.stat("deliveries", (long long)log.size());
	}
	R.stat("schedules"); R.stat("faults", faults);
	R.distinct("schedule", vh::hash_str(trace, (uint64_t)pm));
	if (R.want_sample() && n % 3 == 0) R.sample("{\"model\":\"" + cls + "\",\"trace\":" + vh::jstr(trace.substr(0, 200)) + ",\"sent\":" + std::to_string(sent.size()) + ",\"faults\":" + std::to_string(faults) + "}");
out:
	I.destroy(); A.destroy(); proxy.end();
	::close(lsn); ::close(lsnA);
	for (const char *sfx : {".I", ".I.idx", ".A", ".A.idx"}) ::unlink((base + sfx).c_str());
}

int main(int argc, char **argv)
{
	vh::Args a(argc, argv);
	setvbuf(stdout, nullptr, _IOLBF, 0);
	signal(SIGPIPE, SIG_IGN);
	GlobalLogger::set_levels(Logger::Levels(Logger::None));
	const uint64_t seed = a.num("seed", 1);
	const long long start = a.num("start", 0), cases = a.num("cases", 1);
	R.case_seconds = (unsigned)a.num("case-seconds", 150);
	for (long long n = start; n < start + cases; ++n) two_case(n, seed, a.str("dir", "."));
	R.done();
	return 0;
}
