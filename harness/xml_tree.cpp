// xml_tree (C32): generated element trees are serialised with random but legal XML spellings and parsed
// with the real XmlElement; the generator's tree is the reference.  Second mode: arbitrary bytes.
#include <fix8/f8includes.hpp>
#include "vh.hpp"

using namespace FIX8;
using vh::Rng;
static vh::Report R;

struct Node {
	std::string tag, text;
	std::vector<std::pair<std::string, std::string>> attrs;	// unique names
	std::vector<Node> kids;
};

static std::string name(Rng& r, bool small)
{
	static const char *first = "abcdefghijklmnopqrstuvwxyzABCDEFGHIJKLMNOPQRSTUVWXYZ_";
	static const char *rest = "abcdefghijklmnopqrstuvwxyzABCDEFGHIJKLMNOPQRSTUVWXYZ_0123456789.-";
	if (small) { static const char *pool[] = {"a", "b", "c", "item", "group", "x1", "cfg"}; return pool[r.below(7)]; }
	std::string s(1, first[r.below(53)]);
	int n = (int)r.below(8);
	for (int i = 0; i < n; ++i) s += rest[r.below(65)];
	return s;
}

static std::string value(Rng& r, bool text)
{
	int n = (int)r.range(text ? 1 : 0, 24);
	std::string s;
	int kind = r.below(5);
	for (int i = 0; i < n; ++i) {
		if (kind == 0) s += (char)r.range(32, 126);
		else if (kind == 1) { static const char *sp = "&<>\"' =/;#x{}$!"; s += sp[r.below(15)]; }
		else if (kind == 2) s += (char)r.range('a', 'z');
		else s += r.chance(25) ? "&<>\"'"[r.below(5)] : (char)r.range(32, 126);
	}
	if (r.chance(25)) {	// text that looks like a reference and must come back verbatim
		static const char *looks[] = {"&lt;", "&amp;", "&#65;", "&#x41;", "&quot;", "&gt;", "&apos;", "&amp;amp;", "&copy;", "&#38;lt;", "&nosuch;"};
		s.insert(r.below(s.size() + 1), looks[r.below(11)]);
	}
	if (text) {	// the parser keeps text only when it has a non-blank character; surrounding blanks are kept
		bool nonblank = false; for (char c : s) if (c != ' ') nonblank = true;
		if (!nonblank) s += 'T';
	}
	return s;
}

static Node gen(Rng& r, int depth, int maxdepth, bool smallnames)
{
	Node n;
	n.tag = name(r, smallnames && depth > 0);
	int na = (int)r.below(5);
	std::set<std::string> used;
	for (int i = 0; i < na; ++i) {
		std::string an = name(r, false);
		if (an == "docpath" || !used.insert(an).second) continue;
		n.attrs.push_back({an, value(r, false)});
	}
	int nk = depth >= maxdepth ? 0 : (int)r.below(depth == 0 ? 7 : 5);
	if (nk == 0) { if (r.chance(55)) n.text = value(r, true); }
	else for (int i = 0; i < nk; ++i) n.kids.push_back(gen(r, depth + 1, maxdepth, smallnames));
	return n;
}

static std::string esc(Rng& r, const std::string& s, char delim, bool text)
{
	std::string o;
	char b[16];
	for (unsigned char c : s) {
		bool must = c == '&' || c == '<' || c == '>' || (!text && c == (unsigned char)delim);
		bool may = c == '"' || c == '\'' ;
		if (must || (may && r.chance(50)) || (!must && !may && r.chance(2))) {
			int how = r.below(3);
			const char *nm = c == '&' ? "amp" : c == '<' ? "lt" : c == '>' ? "gt" : c == '"' ? "quot" : c == '\'' ? "apos" : nullptr;
			if (how == 0 && nm) { o += '&'; o += nm; o += ';'; }
			else if (how == 1) { snprintf(b, sizeof b, "&#%u;", c); o += b; }
			else { snprintf(b, sizeof b, r.chance(50) ? "&#x%x;" : "&#x%X;", c); o += b; }
		} else o += (char)c;
	}
	return o;
}

static void ser(Rng& r, const Node& n, std::string& out, int depth)
{
	auto ws = [&](bool need) { int k = (int)r.below(3) + (need ? 1 : 0); std::string s; for (int i = 0; i < k; ++i) s += r.chance(80) ? ' ' : r.chance(50) ? '\n' : '\t'; return s; };
	if (r.chance(40)) out += "\n" + std::string(depth * 2, ' ');
	if (r.chance(8)) out += "<!-- note " + std::to_string(depth) + " -->";
	out += "<" + n.tag;
	for (auto& a : n.attrs) {
		char q = r.chance(50) ? '"' : '\'';
		out += ws(true) + a.first + (r.chance(15) ? " = " : "=") + q + esc(r, a.second, q, false) + q;
	}
	if (n.kids.empty() && n.text.empty() && r.chance(60)) { out += (r.chance(30) ? " " : "") + std::string("/>"); return; }
	out += (r.chance(15) ? " " : "") + std::string(">");
	if (!n.text.empty()) out += esc(r, n.text, 0, true);
	for (auto& k : n.kids) ser(r, k, out, depth + 1);
	if (!n.kids.empty() && r.chance(40)) out += "\n" + std::string(depth * 2, ' ');
	out += "</" + n.tag + (r.chance(10) ? " " : "") + ">";
}

static bool same(const Node& n, const XmlElement *e, std::string& why, const std::string& path)
{
	if (e->GetTag() != n.tag) { why = "tag|" + path + ": got '" + e->GetTag() + "' want '" + n.tag + "'"; return false; }
	std::map<std::string, std::string> want(n.attrs.begin(), n.attrs.end()), got(e->abegin(), e->aend());
	if (want != got) {
		why = "attributes|" + path + "/" + n.tag + ":";
		for (auto& kv : want) { auto it = got.find(kv.first); if (it == got.end()) why += " missing " + kv.first; else if (it->second != kv.second) why += " " + kv.first + " got '" + vh::vis(it->second) + "' want '" + vh::vis(kv.second) + "'"; }
		for (auto& kv : got) if (!want.count(kv.first)) why += " extra " + kv.first;
		return false;
	}
	const std::string *v = e->GetVal();
	if ((v ? *v : std::string()) != n.text) { why = "text|" + path + "/" + n.tag + ": got '" + vh::vis(v ? *v : "") + "' want '" + vh::vis(n.text) + "'"; return false; }
	size_t i = 0;
	for (auto it = e->begin(); it != e->end(); ++it, ++i) {
		if (i >= n.kids.size()) { why = "children|" + path + "/" + n.tag + ": extra child " + (*it)->GetTag(); return false; }
		if (!same(n.kids[i], *it, why, path + "/" + n.tag)) return false;
	}
	if (i != n.kids.size() || (size_t)e->GetChildCnt() != n.kids.size()) { why = "children|" + path + "/" + n.tag + ": got " + std::to_string(i) + " want " + std::to_string(n.kids.size()); return false; }
	return true;
}

// reference path lookup: nodes whose tag path from the root equals comps, optionally with attribute atag==aval
static void ref_find(const Node& n, const std::vector<std::string>& comps, size_t idx, const std::string *atag, const std::string *aval, std::vector<const Node *>& out)
{
	if (n.tag != comps[idx]) return;
	if (idx + 1 == comps.size()) {
		if (atag) { bool ok = false; for (auto& a : n.attrs) if (a.first == *atag && a.second == *aval) ok = true; if (!ok) return; }
		out.push_back(&n);
		return;
	}
	for (auto& k : n.kids) ref_find(k, comps, idx + 1, atag, aval, out);
}

static void collect_paths(const Node& n, std::vector<std::string>& cur, std::vector<std::vector<std::string>>& out)
{
	cur.push_back(n.tag);
	out.push_back(cur);
	for (auto& k : n.kids) collect_paths(k, cur, out);
	cur.pop_back();
}

static const Node *node_at(const Node& root, const XmlElement *e)
{
	// map a parsed element back to the generator's node through child indexes
	std::vector<int> idx;
	for (const XmlElement *p = e; p->GetParent(); p = p->GetParent()) idx.push_back(p->GetSubIdx() - 1);
	const Node *n = &root;
	for (auto it = idx.rbegin(); it != idx.rend(); ++it) { if (*it < 0 || (size_t)*it >= n->kids.size()) return nullptr; n = &n->kids[*it]; }
	return n;
}

static void mode_tree(const vh::Args& a)
{
	long long start = a.num("start", 0), cases = a.num("cases", 10);
	uint64_t seed = a.num("seed", 1);
	for (long long c = start; c < start + cases; ++c) {
		R.case_mark(c);
		Rng r(vh::mix(seed, c));
		Node root = gen(r, 0, (int)r.range(0, 6), r.chance(70));
		std::string doc;
		if (r.chance(50)) doc += "<?xml version='1.0' encoding='ISO-8859-1'?>\n";
		if (r.chance(20)) doc += "<!-- generated -->\n";
		ser(r, root, doc, 0);
		doc += "\n";
		R.stat("trees");
		R.distinct("tree", vh::hash_str(doc));
		std::istringstream is(doc);
		std::unique_ptr<XmlElement> e;
		try { e.reset(XmlElement::Factory(is)); }
		catch (const std::exception& ex) { R.viol("oracle:valid-document-rejected", std::string(ex.what()) + " doc=" + vh::vis(doc, 600)); continue; }
		if (!e) { R.viol("oracle:valid-document-rejected", "null tree doc=" + vh::vis(doc, 600)); continue; }
		std::string why;
		if (!same(root, e.get(), why, "")) {
			std::string k = why.substr(0, why.find('|'));
			std::string cls = why.find("&") != std::string::npos ? "|value-contains-ampersand" : "";
			R.viol("oracle:tree-differs-" + k + cls, why.substr(why.find('|') + 1) + " doc=" + vh::vis(doc, 600));
			continue;
		}
		// path lookups
		std::vector<std::vector<std::string>> paths; std::vector<std::string> cur;
		collect_paths(root, cur, paths);
		for (int q = 0; q < 12; ++q) {
			std::vector<std::string> comps = paths[r.below(paths.size())];
			if (r.chance(25)) comps.back() = name(r, true);	// probably a miss
			if (r.chance(10) && comps.size() > 1) comps.erase(comps.begin() + r.below(comps.size()));
			std::string path;
			for (size_t i = 0; i < comps.size(); ++i) path += (i ? "/" : "") + comps[i];
			const bool rootbased = r.chance(30);
			std::string atag, aval; const std::string *pt = nullptr, *pv = nullptr;
			if (r.chance(25)) {
				std::vector<const Node *> cand; ref_find(root, comps, 0, nullptr, nullptr, cand);
				if (!cand.empty() && !cand[0]->attrs.empty()) { auto& at = cand[r.below(cand.size())]->attrs; if (!at.empty()) { auto& pr = at[r.below(at.size())]; atag = pr.first; aval = r.chance(80) ? pr.second : "nope"; pt = &atag; pv = &aval; } }
			}
			std::vector<const Node *> want; ref_find(root, comps, 0, pt, pv, want);
			XmlElement::XmlSet got;
			e->find((rootbased ? "//" : "") + path, got, pt, pv);
			const XmlElement *first = e->find((rootbased ? "//" : "") + path, pt, pv);
			R.stat("lookups");
			std::vector<const Node *> gotn;
			for (auto *ge : got) gotn.push_back(node_at(root, ge));
			bool ok = gotn.size() == want.size();
			for (size_t i = 0; ok && i < want.size(); ++i) ok = gotn[i] == want[i];
			if (!ok) { R.viol("oracle:path-lookup-set", "path=" + path + (pt ? " [" + atag + "=" + vh::vis(aval) + "]" : "") + " got " + std::to_string(gotn.size()) + " want " + std::to_string(want.size()) + " doc=" + vh::vis(doc, 500)); break; }
			const Node *fn = first ? node_at(root, first) : nullptr;
			if ((want.empty() && first) || (!want.empty() && fn != want[0])) { R.viol("oracle:path-lookup-first", "path=" + path + " doc=" + vh::vis(doc, 500)); break; }
		}
		if (R.want_sample()) R.sample("{\"doc\":" + vh::jstr(doc.substr(0, 300)) + "}");
	}
}

static void mode_bytes(const vh::Args& a)
{
	long long start = a.num("start", 0), cases = a.num("cases", 10);
	uint64_t seed = a.num("seed", 1);
	for (long long c = start; c < start + cases; ++c) {
		R.case_mark(c);
		Rng r(vh::mix(seed, c));
		for (int k = 0; k < 200; ++k) {
			std::string doc;
			int kind = r.below(4);
			if (kind == 0) { size_t n = r.below(400); for (size_t i = 0; i < n; ++i) doc += (char)r.next(); }
			else if (kind == 1) { size_t n = r.below(600); static const char *al = "<>/=\"'&;#x!-?[]ab1 \n\t{}$"; for (size_t i = 0; i < n; ++i) doc += al[r.below(25)]; }
			else {
				Node root = gen(r, 0, (int)r.range(0, 5), true);
				ser(r, root, doc, 0);
				int muts = (int)r.range(1, 6);
				for (int m = 0; m < muts && !doc.empty(); ++m) {
					size_t p = r.below(doc.size());
					switch (r.below(6)) {
					case 0: doc.erase(p, r.below(8) + 1); break;
					case 1: doc.insert(p, 1, (char)r.next()); break;
					case 2: doc[p] = "<>/=\"'&;"[r.below(8)]; break;
					case 3: doc.resize(p); break;
					case 4: doc.insert(p, doc.substr(r.below(doc.size()), r.below(40))); break;
					default: { static const char *ins[] = {"<![CDATA[", "]]>", "<!--", "-->", "<?", "?>", "&#;", "&#x;", "&#99999999999;", "&;", "<a", "</", "=''", "&#0;", "&#x100;"}; doc.insert(p, ins[r.below(15)]); }
					}
				}
			}
			if (kind == 3 && r.chance(30)) { std::string deep; int d = (int)r.range(100, 400); for (int i = 0; i < d; ++i) deep += "<d>"; doc = deep + doc; }
			if (doc.size() > 4096) doc.resize(4096);
			if (doc.find("include") != std::string::npos) continue;
			R.stat("byte_inputs");
			if (k < 40) R.distinct("byte_input", vh::hash_str(doc));
			std::istringstream is(doc);
			try {
				std::unique_ptr<XmlElement> e(XmlElement::Factory(is));
				if (e) { R.stat("byte_inputs_parsed"); std::ostringstream os; os << *e; }
			}
			catch (const XMLError&) { R.stat("byte_inputs_xmlerror"); }
			catch (const f8Exception& ex) { R.stat("byte_inputs_f8exception"); }
			catch (const std::exception& ex) { R.viol(std::string("oracle:foreign-exception|") + typeid(ex).name(), std::string(ex.what()) + " doc=" + vh::vis(doc, 300)); }
		}
	}
}

int main(int argc, char **argv)
{
	vh::Args a(argc, argv);
	XmlElement::XmlFlags fl; fl.set(XmlElement::noextensions);
	XmlElement::set_flags(fl);	// ${env} and !{shell} extensions are outside the property (and would run commands)
	std::string mode = a.pos.empty() ? "tree" : a.pos[0];
	if (mode == "tree") mode_tree(a); else mode_bytes(a);
	R.done();
	return 0;
}
