// timer_mon: C31.  Real Timer<Monitor> instances with real threads and the real clock; the oracle asserts LOWER bounds only (all instants
// come from the clock the Timer itself reads, Tickval(true)), an order relation decided by a global atomic ticket, repeat counts and
// silence after clear().  Nothing is asserted about lateness, so machine load cannot raise an alarm.
#include <fix8/f8includes.hpp>
#include "vh.hpp"
#include <atomic>
#include <mutex>
#include <thread>

using namespace FIX8;
static vh::Report R;
static std::atomic<long long> g_ticket{0};

static long long now_ns() { return Tickval(true).get_ticks(); }

struct Run { int slot; long long ticket, t_entry; };

struct Monitor {
	static const int NSLOT = 16;
	std::mutex mx;	// protects runs (callbacks come from the timer thread, the verdict is taken by the driver after join)
	std::vector<Run> runs;
	std::atomic<int> count[NSLOT];
	int true_runs[NSLOT];	// the callback returns true for its first true_runs[i] invocations, then false
	int work_us[NSLOT];
	Monitor() { for (int i = 0; i < NSLOT; ++i) { count[i] = 0; true_runs[i] = 0; work_us[i] = 0; } }
	template<int I> bool cb() {
		const long long t = now_ns();
		const long long tk = g_ticket.fetch_add(1) + 1;
		{ std::lock_guard<std::mutex> g(mx); runs.push_back({I, tk, t}); }
		const int k = count[I].fetch_add(1);
		if (work_us[I]) std::this_thread::sleep_for(std::chrono::microseconds(work_us[I]));
		return k < true_runs[I];
	}
};

typedef bool (Monitor::*CB)();
static CB cbs[Monitor::NSLOT] = {
	&Monitor::cb<0>, &Monitor::cb<1>, &Monitor::cb<2>, &Monitor::cb<3>, &Monitor::cb<4>, &Monitor::cb<5>, &Monitor::cb<6>, &Monitor::cb<7>,
	&Monitor::cb<8>, &Monitor::cb<9>, &Monitor::cb<10>, &Monitor::cb<11>, &Monitor::cb<12>, &Monitor::cb<13>, &Monitor::cb<14>, &Monitor::cb<15> };

struct Ev { int slot; unsigned delay_ms; bool repeat; int true_runs; long long t_before, t_after, ticket_after; int epoch; };

// Spacing of consecutive runs of a repeating event.  The Timer computes the next due instant from a clock value it read just before it
// entered the callback; that read is not observable, and the thread may be descheduled between the read and the entry.  The check
// therefore allows slack = interval/2 + 30 ms and a suspicious case is only reported when it trips in three executions of the same case.
static bool g_spacing_suspect;
static std::string g_spacing_detail;

static void timer_case_once(long long n, uint64_t seed, bool report);
static void timer_case(long long n, uint64_t seed)
{
	g_spacing_suspect = false;
	timer_case_once(n, seed, true);
	if (g_spacing_suspect) {
		int again = 0;
		for (int k = 0; k < 2; ++k) { g_spacing_suspect = false; timer_case_once(n, seed, false); if (g_spacing_suspect) ++again; }
		if (again == 2) R.viol("oracle:repeat-run-sooner-than-interval", g_spacing_detail + " (reproduced in 3 of 3 executions of this case)");
		else R.stat("spacing_suspects_not_reproduced");
	}
}

static void timer_case_once(long long n, uint64_t seed, bool report)
{
	vh::Rng r(seed * 104729 + n);
	R.case_mark(n);
	Monitor mon;
	std::vector<Ev> evs;
	long long clear_ticket[4] = {0, 0, 0, 0};	// ticket value when clear() returned, per epoch
	long long clear_time[4] = {0, 0, 0, 0};
	int nclears = 0;
	{
		Timer<Monitor> timer(mon, (int)r.range(1, 10));
		timer.start();
		int slot = 0, epoch = 0;
		const int rounds = (int)r.range(1, 3);
		for (int round = 0; round < rounds && slot < Monitor::NSLOT; ++round) {
			const int cnt = (int)r.range(1, std::min<long long>(6, Monitor::NSLOT - slot));
			unsigned maxd = 0;
			if (r.chance(20) && slot + 2 <= Monitor::NSLOT) {
				// two events due in the same wake-up of the timer thread: a slow callback first, a repeating event right behind it.  The
				// repeat's next run is due one interval after ITS run, not one interval after the wake-up began.
				const unsigned dly = (unsigned)r.range(70, 200);
				for (int i = 0; i < 2; ++i, ++slot) {
					Ev e{};
					e.slot = slot; e.delay_ms = dly; e.repeat = i == 1; e.true_runs = i == 1 ? (int)r.range(1, 2) : 0; e.epoch = epoch;
					mon.true_runs[slot] = e.true_runs;
					mon.work_us[slot] = i == 0 ? (int)(dly / 2 + r.range(50, 80)) * 1000 : 0;
					e.t_before = now_ns();
					timer.schedule(TimerEvent<Monitor>(cbs[slot], e.repeat), e.delay_ms);
					e.t_after = now_ns();
					e.ticket_after = g_ticket.load();
					evs.push_back(e);
					maxd = std::max(maxd, dly * (unsigned)(e.true_runs + 1) + dly);
				}
				R.stat("same_wakeup_pairs");
			}
			for (int i = 0; i < cnt && slot < Monitor::NSLOT; ++i, ++slot) {
				Ev e{};
				e.slot = slot;
				e.delay_ms = (unsigned)(r.chance(30) ? r.range(1, 5) : r.range(1, 200));
				e.repeat = r.chance(40);
				e.true_runs = e.repeat ? (int)r.range(0, 3) : (r.chance(50) ? 5 : 0);	// a non-repeating event must not repeat whatever it returns
				mon.true_runs[slot] = e.true_runs;
				mon.work_us[slot] = r.chance(25) ? (int)r.range(100, r.chance(30) ? 60000 : 20000) : 0;
				e.epoch = epoch;
				if (r.chance(30)) std::this_thread::sleep_for(std::chrono::microseconds(r.range(0, 3000)));
				e.t_before = now_ns();
				timer.schedule(TimerEvent<Monitor>(cbs[slot], e.repeat), e.delay_ms);
				e.t_after = now_ns();
				e.ticket_after = g_ticket.load();
				evs.push_back(e);
				maxd = std::max(maxd, e.delay_ms * (e.repeat ? (unsigned)e.true_runs + 1 : 1));
			}
			// let some, all or none of them fire, then clear (or just wait everything out in the last round)
			const bool do_clear = round + 1 < rounds || r.chance(50);
			const unsigned wait_ms = do_clear ? (unsigned)r.range(0, maxd + 20) : maxd + 60;
			std::this_thread::sleep_for(std::chrono::milliseconds(wait_ms));
			if (do_clear && nclears < 4) {
				timer.clear();
				clear_ticket[epoch] = g_ticket.fetch_add(1) + 1;	// every callback entered after this point has a larger ticket
				clear_time[epoch] = now_ns();
				++nclears; ++epoch;
				std::this_thread::sleep_for(std::chrono::milliseconds(r.range(0, 30)));
			}
		}
		std::this_thread::sleep_for(std::chrono::milliseconds(r.range(0, 20)));
		timer.stop();
		timer.join();
	}
	// ---- verdict
	std::vector<std::vector<Run>> per(Monitor::NSLOT);
	for (auto& x : mon.runs) per[x.slot].push_back(x);
	char d[512];
	for (auto& e : evs) {
		auto& rs = per[e.slot];
		const long long interval = (long long)e.delay_ms * 1000000LL, slack = interval / 2 + 30000000LL;
		for (size_t k = 1; k < rs.size(); ++k) if (interval > slack && rs[k].t_entry - rs[k - 1].t_entry < interval - slack) {
			snprintf(d, sizeof d, "repeating event interval=%ums: run %zu entered only %.3f ms after run %zu (callback work %d us; another event's callback may have delayed the earlier run)", e.delay_ms, k, (rs[k].t_entry - rs[k - 1].t_entry) / 1e6, k - 1, mon.work_us[e.slot]);
			g_spacing_suspect = true; g_spacing_detail = d;
		}
	}
	if (!report) return;
	uint64_t h = 0;
	for (auto& e : evs) {
		auto& rs = per[e.slot];
		R.stat("events");
		R.stat("callbacks", (long long)rs.size());
		for (size_t k = 0; k < rs.size(); ++k) {
			// cumulative lower bound: the k-th run of a repeating event is not before schedule + delay + k*interval
			const long long lb = e.t_before + (long long)e.delay_ms * 1000000LL * (long long)(k + 1);
			if (rs[k].t_entry < lb) {
				snprintf(d, sizeof d, "event delay=%ums repeat=%d run %zu entered %.3f ms before its earliest permitted instant (scheduled at t0, entered at t0+%.3f ms)", e.delay_ms, (int)e.repeat, k, (lb - rs[k].t_entry) / 1e6, (rs[k].t_entry - e.t_before) / 1e6);
				R.viol(std::string("oracle:callback-before-due-time|") + (k ? "repeat-run" : "first-run"), d);
			}
			if (e.epoch < 4 && clear_ticket[e.epoch] && rs[k].ticket > clear_ticket[e.epoch]) {
				snprintf(d, sizeof d, "event delay=%ums repeat=%d scheduled before clear(): run %zu entered %.3f ms after clear() had returned", e.delay_ms, (int)e.repeat, k, (rs[k].t_entry - clear_time[e.epoch]) / 1e6);
				R.viol("oracle:callback-after-clear", d);
			}
		}
		const size_t maxruns = e.repeat ? (size_t)e.true_runs + 1 : 1;
		if (rs.size() > maxruns) {
			snprintf(d, sizeof d, "event delay=%ums repeat=%d callback returns true %d times: ran %zu times (at most %zu permitted)", e.delay_ms, (int)e.repeat, e.true_runs, rs.size(), maxruns);
			R.viol(std::string("oracle:ran-too-often|") + (e.repeat ? "repeat-after-false" : "non-repeating-event-repeated"), d);
		}
		h = vh::mix(h, vh::mix(e.delay_ms, (e.repeat ? 16 : 0) + rs.size()));
	}
	// order of first runs: i certainly due before j (disjoint due brackets), both pending together -> i first
	for (auto& a : evs) for (auto& b : evs) {
		if (a.slot == b.slot || a.epoch != b.epoch || per[a.slot].empty() || per[b.slot].empty()) continue;
		const long long a_latest = a.t_after + (long long)a.delay_ms * 1000000LL, b_earliest = b.t_before + (long long)b.delay_ms * 1000000LL;
		if (a_latest >= b_earliest) continue;
		// pending together: b was on the queue before a's first run
		if (b.ticket_after >= per[a.slot][0].ticket) continue;
		R.stat("ordered_pairs_checked");
		if (per[a.slot][0].ticket > per[b.slot][0].ticket) {
			snprintf(d, sizeof d, "event A (delay %ums, due at most %.3f ms after t0) ran after event B (delay %ums, due at least %.3f ms after t0): B entered %.3f ms before A", a.delay_ms, (a_latest - evs[0].t_before) / 1e6, b.delay_ms, (b_earliest - evs[0].t_before) / 1e6, (per[a.slot][0].t_entry - per[b.slot][0].t_entry) / 1e6);
			R.viol("oracle:events-run-out-of-due-order", d);
		}
	}
	R.stat("timers");
	R.stat("clears", nclears);
	R.distinct("event_set", h);
	if (R.want_sample() && n % 9 == 0) {
		std::string s = "{\"events\":[";
		for (size_t i = 0; i < evs.size(); ++i) { snprintf(d, sizeof d, "%s{\"delay_ms\":%u,\"repeat\":%d,\"runs\":%zu}", i ? "," : "", evs[i].delay_ms, (int)evs[i].repeat, per[evs[i].slot].size()); s += d; }
		s += "],\"clears\":" + std::to_string(nclears) + "}";
		R.sample(s);
	}
}

int main(int argc, char **argv)
{
	vh::Args a(argc, argv);
	setvbuf(stdout, nullptr, _IOLBF, 0);
	// silenced for the reason given in session_sim.cpp (the exiting timer thread logs through the global logger)
	GlobalLogger::set_levels(Logger::Levels(Logger::None));
	const uint64_t seed = a.num("seed", 1);
	const long long start = a.num("start", 0), cases = a.num("cases", 1);
	R.case_seconds = (unsigned)a.num("case-seconds", 60);
	for (long long n = start; n < start + cases; ++n) timer_case(n, seed);
	R.done();
	return 0;
}
