// persist_crash (C27): fault enumeration.  For every script of store operations, a child process is
// killed (_exit) immediately after the k-th completed write()/lseek() on the file persister's
// descriptors, for EVERY k; the parent reopens the store with a fresh object and checks it against
// what the property allows.  A process crash is modelled: completed system calls persist.
#include <fix8/f8includes.hpp>
#include "vh.hpp"
#include <dlfcn.h>
#include <fcntl.h>
#include <stdarg.h>
#include <sys/wait.h>

using namespace FIX8;
using vh::Rng;
static vh::Report R;

// ---- interposers (this executable's symbols pre-empt libc and the sanitizer interceptors) ----------
static int g_fds[8]; static int g_nfds = 0;
static volatile long g_count = 0, g_crash_at = -1;
static int g_violating = 0; static bool g_quiet = false;
static std::string g_match;
static bool tracked(int fd) { for (int i = 0; i < g_nfds; ++i) if (g_fds[i] == fd) return true; return false; }
static void tick() { ++g_count; if (g_crash_at >= 0 && g_count >= g_crash_at) _exit(137); }

extern "C" int open(const char *path, int flags, ...)
{
	static int (*real)(const char *, int, ...) = (int (*)(const char *, int, ...))dlsym(RTLD_NEXT, "open");
	mode_t mode = 0;
	if (flags & O_CREAT) { va_list ap; va_start(ap, flags); mode = va_arg(ap, mode_t); va_end(ap); }
	int fd = real(path, flags, mode);
	if (fd >= 0 && !g_match.empty() && strstr(path, g_match.c_str()) && g_nfds < 8) g_fds[g_nfds++] = fd;
	return fd;
}
extern "C" int close(int fd)
{
	static int (*real)(int) = (int (*)(int))dlsym(RTLD_NEXT, "close");
	for (int i = 0; i < g_nfds; ++i) if (g_fds[i] == fd) { g_fds[i] = g_fds[--g_nfds]; break; }
	return real(fd);
}
extern "C" ssize_t write(int fd, const void *buf, size_t n)
{
	static ssize_t (*real)(int, const void *, size_t) = (ssize_t (*)(int, const void *, size_t))dlsym(RTLD_NEXT, "write");
	ssize_t r = real(fd, buf, n);
	if (tracked(fd)) tick();
	return r;
}
extern "C" off_t lseek(int fd, off_t off, int whence)
{
	static off_t (*real)(int, off_t, int) = (off_t (*)(int, off_t, int))dlsym(RTLD_NEXT, "lseek");
	off_t r = real(fd, off, whence);
	if (tracked(fd)) tick();
	return r;
}
extern "C" off_t lseek64(int fd, off_t off, int whence)
{
	static off_t (*real)(int, off_t, int) = (off_t (*)(int, off_t, int))dlsym(RTLD_NEXT, "lseek64");
	off_t r = real(fd, off, whence);
	if (tracked(fd)) tick();
	return r;
}

// ---- script ------------------------------------------------------------------------------------------
struct Op { int kind; unsigned a, b; std::string bytes; long end_count; bool result; };	// kind 0 message put, 1 control put, 2 reopen

static std::vector<Op> make_script(Rng& r)
{
	std::vector<Op> s;
	int n = (int)r.range(1, 7);
	int shape = r.below(4);	// 0 message first, 1 control first, 2 alternating, 3 random
	unsigned nextseq = 1 + (unsigned)r.below(3);
	for (int i = 0; i < n; ++i) {
		bool ctl = shape == 0 ? (i > 0 && r.chance(50)) : shape == 1 ? (i == 0 || r.chance(40)) : shape == 2 ? (i % 2 == 1) : r.chance(45);
		if (!ctl && r.chance(6) && i > 0) { s.push_back({2, 0, 0, "", 0, false}); continue; }
		if (ctl) s.push_back({1, r.chance(15) ? 0u : 1 + (unsigned)r.below(1000), r.chance(15) ? 0u : 1 + (unsigned)r.below(1000), "", 0, false});	// 0 is a legal value too (reset)
		else {
			std::string b((size_t)r.range(1, 90), 0);
			for (auto& ch : b) ch = (char)r.range(33, 126);
			b += "#" + std::to_string(nextseq);
			s.push_back({0, nextseq, 0, b, 0, false});
			nextseq += 1 + (r.chance(25) ? (unsigned)r.below(3) : 0);
		}
	}
	return s;
}

static void run_script(std::vector<Op>& s, const std::string& dir, const std::string& name, bool record)
{
	std::unique_ptr<FilePersister> p(new FilePersister(0));
	if (!p->initialise(dir, name, true)) _exit(3);
	for (auto& op : s) {
		if (op.kind == 0) op.result = p->put(op.a, op.bytes);
		else if (op.kind == 1) op.result = p->put(op.a, op.b);
		else { p.reset(new FilePersister(0)); if (!p->initialise(dir, name, false)) _exit(4); op.result = true; }
		if (record) op.end_count = g_count;
	}
}

static std::string script_text(const std::vector<Op>& s)
{
	std::string t;
	for (auto& op : s) t += op.kind == 0 ? "put(" + std::to_string(op.a) + "," + std::to_string(op.bytes.size()) + "B) " : op.kind == 1 ? "ctl(" + std::to_string(op.a) + "," + std::to_string(op.b) + ") " : "reopen ";
	return t;
}

int main(int argc, char **argv)
{
	vh::Args a(argc, argv);
	long long start = a.num("start", 0), cases = a.num("cases", 10);
	uint64_t seed = a.num("seed", 1);
	std::string dir = a.str("dir", "/dev/shm");
	char nb[40]; snprintf(nb, sizeof nb, "pc%d", (int)getpid());
	const std::string name = nb;
	g_match = name;

	for (long long c = start; c < start + cases; ++c) {
		R.case_mark(c);
		Rng r(vh::mix(seed, c));
		std::vector<Op> script = make_script(r);
		// dry run in a child to learn the syscall count after each operation
		int pfd[2]; if (pipe(pfd)) return 2;
		pid_t pid = fork();
		if (pid == 0) {
			g_count = 0; g_crash_at = -1;
			run_script(script, dir, name, true);
			std::string out;
			for (auto& op : script) out += std::to_string(op.end_count) + " " + std::to_string(op.result) + "\n";
			if (::write(pfd[1], out.data(), out.size()) < 0) {}
			_exit(0);
		}
		close(pfd[1]);
		std::string buf; char tmp[512]; ssize_t n;
		while ((n = read(pfd[0], tmp, sizeof tmp)) > 0) buf.append(tmp, n);
		close(pfd[0]);
		int st; waitpid(pid, &st, 0);
		if (!WIFEXITED(st) || WEXITSTATUS(st) != 0) { R.viol("harness:dry-run-failed", script_text(script)); continue; }
		{
			std::istringstream is(buf);
			for (auto& op : script) { int res; is >> op.end_count >> res; op.result = res; }
		}
		const long total = script.back().end_count;
		const std::string stext = script_text(script);
		R.stat("scripts");
		R.distinct("script", vh::hash_str(stext));
		if (R.want_sample()) R.sample("{\"script\":" + vh::jstr(stext) + ",\"crash_points\":" + std::to_string(total + 1) + "}");
		for (auto& op : script) if (op.kind != 2 && !op.result) R.viol("oracle:store-refused-in-clean-run", stext);

		for (long k = 0; k <= total + 1; ++k) {
			pid = fork();
			if (pid == 0) {
				g_count = 0; g_crash_at = k == 0 ? -2 : k;
				if (k == 0) {	// crash before the first tracked call: create the store, then die
					std::unique_ptr<FilePersister> p(new FilePersister(0));
					p->initialise(dir, name, true);
					_exit(137);
				}
				std::vector<Op> copy(script);
				run_script(copy, dir, name, false);
				_exit(0);	// k == total + 1: the script ran to completion
			}
			waitpid(pid, &st, 0);
			R.stat("crash_points");
			R.distinct("crash_point", vh::mix(vh::hash_str(stext), k));
			// verification runs in its own child too: fix8 starts a logger thread, and this process must stay
			// single-threaded so that the next fork cannot inherit a locked allocator
			fflush(stdout);
			pid_t vpid = fork();
			if (vpid != 0) {
				int vst; waitpid(vpid, &vst, 0);
				if (!WIFEXITED(vst)) R.viol("harness:verifier-died", stext);
				else if (WEXITSTATUS(vst) == 1) { R.stat("violating_crash_points"); if (++g_violating > 40) g_quiet = true; }
				continue;
			}
			R = vh::Report();
			R.max_per_key = g_quiet ? 0 : 2;
			// which operations completed, which one was in flight
			std::map<unsigned, std::string> done; std::map<unsigned, std::string> maybe;
			bool ctl_done = false, ctl_maybe = false; unsigned cs = 0, ct = 0, ms = 0, mt = 0;
			long prev = 0;
			const Op *inflight = nullptr;
			// an operation counts as completed only if the crash came after a later call than its last one
			// (or it made no tracked call); one whose calls straddle or end at k may be present or absent
			for (auto& op : script) {
				if (op.end_count < k || (op.end_count == prev && op.end_count <= k)) { if (op.kind == 0) done[op.a] = op.bytes; else if (op.kind == 1) { ctl_done = true; cs = op.a; ct = op.b; } }
				else if (prev < k) { inflight = &op; if (op.kind == 0) maybe[op.a] = op.bytes; else if (op.kind == 1) { ctl_maybe = true; ms = op.a; mt = op.b; } break; }
				else break;
				prev = op.end_count;
			}
			char where[160];
			snprintf(where, sizeof where, " crash_after_call=%ld/%ld inflight=%s script=[", k, total, inflight ? (inflight->kind == 0 ? "message-put" : inflight->kind == 1 ? "control-put" : "reopen") : "none");
			const std::string ctx = std::string(where) + stext + "]";
			const std::string ifl = inflight ? (inflight->kind == 0 ? "during-message-put" : inflight->kind == 1 ? "during-control-put" : "during-reopen") : "between-operations";
			bool msg_before_ctl = false;
			for (auto& op : script) { if (op.kind == 1) break; if (op.kind == 0) { msg_before_ctl = true; break; } }
			const std::string cls = ifl + (msg_before_ctl ? "|message-stored-before-control" : "");

			std::unique_ptr<FilePersister> p(new FilePersister(0));
			auto vexit = [&]() { fflush(stdout); _exit(R.viol_count.empty() ? 0 : 1); };
			if (!p->initialise(dir, name, false)) { R.viol("oracle:reopen-failed|" + cls, ctx); vexit(); }
			auto check = [&](const char *phase) -> bool {
				bool ok = true;
				unsigned maxseq = 0;
				for (auto& kv : done) maxseq = std::max(maxseq, kv.first);
				for (auto& kv : maybe) maxseq = std::max(maxseq, kv.first);
				for (unsigned s = 1; s <= maxseq + 2; ++s) {
					f8String got;
					bool have = p->get(s, got);
					auto d = done.find(s); auto m = maybe.find(s);
					if (d != done.end()) {
						if (!have) { R.viol("oracle:completed-store-lost|" + cls, std::string(phase) + " seq=" + std::to_string(s) + ctx); ok = false; }
						else if (got != d->second) { R.viol("oracle:completed-store-corrupt|" + cls, std::string(phase) + " seq=" + std::to_string(s) + " got=" + vh::vis(got, 60) + ctx); ok = false; }
					} else if (have) {
						if (m == maybe.end() || got != m->second) { R.viol("oracle:phantom-bytes|" + cls, std::string(phase) + " seq=" + std::to_string(s) + " returned bytes never stored for it: " + vh::vis(got, 60) + ctx); ok = false; }
					}
				}
				unsigned s1 = 0, t1 = 0;
				bool hc = p->get(s1, t1);
				if (ctl_done) {
					bool okc = hc && ((s1 == cs && t1 == ct) || (ctl_maybe && s1 == ms && t1 == mt));
					if (!okc) { R.viol("oracle:control-record-wrong|" + cls, std::string(phase) + " got " + (hc ? std::to_string(s1) + "," + std::to_string(t1) : "none") + " want " + std::to_string(cs) + "," + std::to_string(ct) + ctx); ok = false; }
				} else if (hc && !(ctl_maybe && s1 == ms && t1 == mt)) {
					R.viol("oracle:control-record-phantom|" + cls, std::string(phase) + " got " + std::to_string(s1) + "," + std::to_string(t1) + " but no control store completed" + ctx); ok = false;
				}
				return ok;
			};
			if (!check("after-reopen")) vexit();
			// further stores, including the number that was in flight
			unsigned maxseq = 0;
			for (auto& kv : done) maxseq = std::max(maxseq, kv.first);
			for (auto& kv : maybe) maxseq = std::max(maxseq, kv.first);
			std::vector<unsigned> more;
			if (inflight && inflight->kind == 0) more.push_back(inflight->a);
			more.push_back(maxseq + 1); more.push_back(maxseq + 3);
			bool okm = true;
			for (unsigned s : more) {
				f8String cur;
				if (p->get(s, cur)) continue;	// the in-flight store turned out to be present
				std::string nb2 = "after-crash-" + std::to_string(s) + std::string(1 + s % 7, 'x');
				if (!p->put(s, nb2)) { R.viol("oracle:store-after-reopen-refused|" + cls, "seq=" + std::to_string(s) + ctx); okm = false; break; }
				done[s] = nb2; maybe.erase(s);
			}
			if (!okm) vexit();
			if (!p->put(maxseq + 10, maxseq + 20)) { R.viol("oracle:control-store-after-reopen-refused|" + cls, ctx); vexit(); }
			ctl_done = true; cs = maxseq + 10; ct = maxseq + 20; ctl_maybe = false;
			if (!check("after-further-stores")) vexit();
			p.reset(new FilePersister(0));
			if (!p->initialise(dir, name, false)) { R.viol("oracle:second-reopen-failed|" + cls, ctx); vexit(); }
			check("after-second-reopen");
			vexit();
		}
	}
	unlink((dir + "/" + name).c_str()); unlink((dir + "/" + name + ".idx").c_str());
	R.done();
	return 0;
}
