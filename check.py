#!/usr/bin/env python3
"""check.py <property id> [--tier quick|thorough] [--replay path]

Decides one property of /verif/properties.jsonl by running the real fix8 code from /repo's working tree
under sanitizers and monitors.  Exit 0 held / 1 violation (VIOLATION line) / 2 inconclusive."""
import argparse
import importlib
import json
import os
import subprocess
import sys

VERIF = os.path.dirname(os.path.abspath(__file__))
sys.path.insert(0, os.path.join(VERIF, 'pylib'))
sys.path.insert(0, VERIF)
sys.path.insert(0, os.path.join(VERIF, 'tools'))

REGISTRY = {
    'C07': ('checks.prim', 'c07'), 'C08': ('checks.prim', 'c08'), 'C09': ('checks.prim', 'c09'),
    'C10': ('checks.prim', 'c10'), 'C12': ('checks.prim', 'c12'), 'C24': ('checks.sched', 'c24'),
    'C01': ('checks.codec', 'c01'), 'C02': ('checks.codec', 'c02'), 'C03': ('checks.codec', 'c03'),
    'C04': ('checks.codec', 'c04'), 'C05': ('checks.codec', 'c05'), 'C06': ('checks.codec', 'c06'),
    'C11': ('checks.codec', 'c11'),
    'C13': ('checks.f8c', 'c13'), 'C14': ('checks.f8c', 'c14'),
    'C15': ('checks.reader', 'c15'),
    'C16': ('checks.session', 'c16'), 'C17': ('checks.session', 'c17'), 'C18': ('checks.session', 'c18'),
    'C19': ('checks.session', 'c19'), 'C20': ('checks.session', 'c20'), 'C22': ('checks.session', 'c22'),
    'C23': ('checks.session', 'c23'),
    'C21': ('checks.twosess', 'c21'), 'C25': ('checks.conc', 'c25'),
    'C26': ('checks.persist', 'c26'), 'C27': ('checks.persist', 'c27'),
    'C28': ('checks.logger', 'c28'), 'C29': ('checks.logger', 'c29'),
    'C30': ('checks.queue', 'c30'), 'C31': ('checks.timer', 'c31'), 'C32': ('checks.xml', 'c32'),
}


def main():
    ap = argparse.ArgumentParser()
    ap.add_argument('pid')
    ap.add_argument('--tier', default=os.environ.get('VERIF_TIER', 'quick'))
    ap.add_argument('--replay')
    a = ap.parse_args()
    if a.replay:
        r = json.load(open(a.replay))
        cmd = r.get('replay', {}).get('cmd')
        print('replaying %s: %s' % (r['key'], r['detail'][:300]))
        if r.get('replay', {}).get('script'):
            # interactive harness: feed the recorded command script, show the decoded observations
            import build as buildmod
            import fixmsg
            from runner import SAN_ENV
            h = r['replay']['harness']
            exe = buildmod.build('asan', [h])[h]
            wd = '/dev/shm/fix8verif.replay.%d' % os.getpid()
            os.makedirs(wd, exist_ok=True)
            e = dict(os.environ)
            e.update(SAN_ENV)
            script = r['replay']['script']
            p = subprocess.run([exe, '--dir', wd], input=('\n'.join(script) + '\nQUIT\n').encode('latin-1'), stdout=subprocess.PIPE, stderr=subprocess.PIPE, cwd=wd, env=e)
            blocks = p.stdout.decode('latin-1').split('\n.\n')
            for c_, b_ in zip(script, blocks):
                if c_.startswith('IN '):
                    c_ = 'IN ' + repr(fixmsg.M(bytes.fromhex(c_[3:])))
                print('> ' + c_[:300])
                for l in b_.splitlines():
                    if l.startswith('W '):
                        ms, rest = fixmsg.split_stream(bytes.fromhex(l[2:]))
                        for m in ms:
                            print('      OUT ' + repr(fixmsg.M(m))[:300])
                    elif l:
                        print('      ' + l[:300])
            print(p.stderr.decode('latin-1')[-3000:])
            import shutil
            shutil.rmtree(wd, ignore_errors=True)
            sys.exit(0)
        if not cmd:
            print('no command recorded; re-run: check.py %s --tier %s with VERIF_SEED=%s' % (r['property'], r['tier'], r['seed']))
            sys.exit(2)
        from runner import SAN_ENV
        e = dict(os.environ)
        e.update(SAN_ENV)
        sys.exit(subprocess.call(cmd, env=e))
    if a.pid not in REGISTRY:
        print('unknown property ' + a.pid)
        sys.exit(2)
    seed = int(os.environ.get('VERIF_SEED', '1') or 1)
    mod, fn = REGISTRY[a.pid]
    try:
        m = importlib.import_module(mod)
        getattr(m, fn)(a.tier, seed)
    except SystemExit:
        raise
    except Exception:  # noqa: BLE001
        import traceback
        traceback.print_exc()
        print('%s INCONCLUSIVE harness failure' % a.pid)
        sys.exit(2)


if __name__ == '__main__':
    main()
