"""C01 C02 C03 C04 C05 C06 C11: message codec checks.  Generator and oracles are python over the
independent schema model; the real codec runs in harness/codec_exec.cpp under ASan+UBSan."""
import os
import random
import re

from runner import Check, REPO, NWORK
import fixschema
import fixgen
import fixwire

SCHEMAS = [('utest', 'schema/FIX42UTEST.xml'), ('f44', 'schema/FIX44.xml')]
_cache = {}


def schemas():
    if 'S' not in _cache:
        out = []
        for n, p in SCHEMAS:
            s = fixschema.Schema(os.path.join(REPO, p))
            out.append((n, s, fixwire.data_pairs_map(s)))
        _cache['S'] = out
    return _cache['S']


def unhex(h):
    try:
        return bytes.fromhex(h) if h else b''
    except ValueError:      # a line cut short by a crash of the executor
        return b''


class Obs:
    """observations of one case: op -> (status, payload)"""

    def __init__(self):
        self.ops = {}


def run_script(c, exe, cases_lines, ncases, label, per_case_timeout=5.0, workers=NWORK):
    """write the script, run codec_exec over it, return {case: Obs}"""
    path = os.path.join(c.scratch, label + '.script')
    with open(path, 'w') as f:
        f.write('\n'.join(cases_lines))
        f.write('\n')
    outs = c.run_cases(exe, ['--script', path], ncases, per_case_timeout=per_case_timeout, label=label, workers=workers)
    obs = {}
    for w in outs:
        for line in w.lines:
            if not line.startswith('O '):
                continue
            parts = line.split(' ', 4)
            if len(parts) < 4 or not parts[1].isdigit():
                continue    # line cut short by a crash
            n = int(parts[1])
            o = obs.setdefault(n, Obs())
            o.ops[parts[2]] = (parts[3], parts[4] if len(parts) > 4 else '')
    return obs


def dump_nodes(nodes, schema):
    out = ''
    for n in nodes:
        out += '%d=%s' % (n.tag, n.val.hex())
        if n.elems is not None:
            out += '{' + ''.join('[' + dump_nodes(e, schema) + ']' for e in n.elems) + '}'
        out += ','
    return out


def dump_parsed(p, schema):
    return 'H:%s B:%s T:%s' % (dump_nodes(p['header'], schema), dump_nodes(p['body'], schema), dump_nodes(p['trailer'], schema))


def exc_text(payload):
    try:
        return unhex(payload).decode('latin-1')
    except ValueError:
        return payload


def field_class(schema, msg):
    """coarse content classes of a generated message, for violation keys"""
    cl = set()

    def walk(items, depth):
        for it in items:
            f = schema.by_num[it.num]
            if f.base == 'int' and it.text.startswith(b'-'):
                cl.add('negative-int')
            if f.type == 'LENGTH' and it.elems is None:
                cl.add('length-field')
            if it.elems is not None:
                cl.add('group' if it.elems else 'empty-group')
                if depth >= 1 and it.elems:
                    cl.add('nested-group')
                for e in it.elems:
                    walk(e, depth + 1)
    for k in ('header', 'body', 'trailer'):
        walk(msg[k], 0)
    return cl


def gen_cases(seed, n, shuffle=False, ops='ENC DEC', **genopts):
    """-> (script lines, {case: (ctxname, schema, pairs, msg)})"""
    sch = schemas()
    rng = random.Random(seed * 7919 + 13)
    gens = [fixgen.Gen(s, rng, **genopts) for _, s, _ in sch]
    lines, meta = [], {}
    order = []
    for i, (cn, s, pairs) in enumerate(sch):
        for mt in s.msg_order:
            order.append((i, mt))
    for k in range(n):
        i, mt = order[k % len(order)] if k < 2 * len(order) else rng.choice(order)
        cn, s, pairs = sch[i]
        msg = gens[i].message(mt)
        lines.append('CASE %d %s' % (k, cn))
        lines += fixgen.script_lines(msg, rng, shuffle)
        lines.append('DO ' + ops)
        lines.append('END')
        meta[k] = (cn, s, pairs, msg)
    return lines, meta


def unpaired_length_key(s, msg):
    """the recorded finding: a LENGTH-typed field that is not the prefix of a data field"""
    def walk(items):
        for idx, it in enumerate(items):
            f = s.by_num[it.num]
            if f.type == 'LENGTH' and it.elems is None:
                nxt = items[idx + 1] if idx + 1 < len(items) else None
                if nxt is None or s.by_num[nxt.num].type not in ('DATA', 'XMLDATA'):
                    return True
            if it.elems:
                for e in it.elems:
                    if walk(e):
                        return True
        return False
    return any(walk(msg[k]) for k in ('header', 'body', 'trailer'))


def check_roundtrip(c, obs, meta, want_order_only=False):
    """shared by C01 (content + inverse) and C02 (well-formedness)"""
    shapes = set()
    for k, (cn, s, pairs, msg) in meta.items():
        o = obs.get(k)
        c.evaluations += 1
        if o is None or 'ENC' not in o.ops:
            continue    # process died: reported by the runner from the sanitizer output
        st, pl = o.ops['ENC']
        ctxs = 'ctx=%s msg=%s case=%d' % (cn, msg['msgtype'], k)
        if st != 'ok':
            c.add_violation('oracle:encode-threw|' + exc_text(pl).split(':')[0], '%s: %s' % (ctxs, exc_text(pl)[:200]))
            continue
        w = unhex(pl)
        try:
            p = fixwire.parse_message(w, s, pairs)
        except fixwire.WireError as e:
            c.add_violation('oracle:wire-malformed|' + e.key, '%s: %s wire=%r' % (ctxs, e, w[:300]))
            continue
        diffs = []
        fixwire.compare_nodes(s, p['header'][3:], msg['header'], 'header', diffs)
        fixwire.compare_nodes(s, p['body'], msg['body'], 'body', diffs)
        fixwire.compare_nodes(s, p['trailer'][:-1], msg['trailer'], 'trailer', diffs)
        if diffs:
            c.add_violation('oracle:wire-' + diffs[0][0], '%s: %s' % (ctxs, diffs[0][1]))
            continue
        shapes.add(hash(fixgen.shape(msg)))
        c.stats['fields_checked'] = c.stats.get('fields_checked', 0) + len(p['tokens'])
        dm = max(fixgen.max_depth(msg['body']), fixgen.max_depth(msg['header']))
        c.stats['max_group_depth'] = max(c.stats.get('max_group_depth', 0), dm)
        if want_order_only:
            continue
        # decode side
        if 'DECDUMP' not in o.ops:
            st2, pl2 = o.ops.get('DEC', ('missing', ''))
            txt = exc_text(pl2)
            cls = 'unpaired-length-field' if unpaired_length_key(s, msg) and 'Value size too large' in txt or \
                (unpaired_length_key(s, msg) and 'fixed width' in txt) else txt.split(':')[0]
            c.add_violation('oracle:decode-rejects-own-encoding|' + cls, '%s: %s wire=%r' % (ctxs, txt[:160], w[:200]))
            continue
        want = dump_parsed(p, s)
        got = o.ops['DECDUMP'][1]
        if got != want:
            # locate first difference for the key
            cls = 'unpaired-length-field' if unpaired_length_key(s, msg) else '+'.join(sorted(field_class(s, msg))) or 'plain'
            i = 0
            while i < min(len(got), len(want)) and got[i] == want[i]:
                i += 1
            c.add_violation('oracle:decoded-content-differs|' + cls, '%s: at dump offset %d got ...%s want ...%s' % (ctxs, i, got[max(0, i - 30):i + 60], want[max(0, i - 30):i + 60]))
            continue
        if 'REENC' not in o.ops:
            c.add_violation('oracle:reencode-failed', ctxs)
            continue
        w2 = unhex(o.ops['REENC'][1])
        if w2 != w:
            i = 0
            while i < min(len(w), len(w2)) and w[i] == w2[i]:
                i += 1
            c.add_violation('oracle:reencode-not-identical', '%s: first difference at byte %d: %r vs %r' % (ctxs, i, w[max(0, i - 20):i + 30], w2[max(0, i - 20):i + 30]))
    c.hashes.setdefault('message_shape', set()).update(shapes)


def sample_of(meta, k=0):
    cn, s, pairs, msg = meta[k]
    return {'ctx': cn, 'msgtype': msg['msgtype'], 'wire': fixgen.render(msg, s.begin_string).decode('latin-1')[:400]}


def c01(tier, seed):
    c = Check('C01', tier, seed)
    exe = c.build('asan', ['codec_exec'])['codec_exec']
    n = 4000 if c.quick else 300000
    lines, meta = gen_cases(seed, n, shuffle=False, ops='ENC DEC')
    obs = run_script(c, exe, lines, n, 'c01')
    check_roundtrip(c, obs, meta)
    c.samples = [sample_of(meta, 0), sample_of(meta, len(meta) // 2)]
    c.distinct_names = ['message_shape']
    c.rule = ('every message type of FIX42UTEST and FIX44 round-robin, then random types; random optional-field subsets, values over '
              'each declared type\'s domain (negative and boundary ints, floats with <=2 decimals, printable strings incl. "=" and '
              'blanks, ms timestamps 1970..2099, Length/data pairs), groups with 0..3 elements nested to the schema\'s depth; '
              'encode -> independent schema-directed wire parse compared token by token with the intended content -> factory -> '
              'dump of the decoded object == wire tokens -> re-encode byte-identical; distinct = distinct (msgtype, field/group shape)')
    c.assumptions = ['each Message object is encoded once (API contract)', 'float equality on the wire is numeric (trailing-zero trimming is free)',
                     'fields are created through the metadata factory from their text, as the decoder does']
    c.finish()


def c02(tier, seed):
    c = Check('C02', tier, seed)
    exe = c.build('asan', ['codec_exec'])['codec_exec']
    n = 4000 if c.quick else 300000
    lines, meta = gen_cases(seed + 1000, n, shuffle=True, ops='ENC')
    obs = run_script(c, exe, lines, n, 'c02')
    check_roundtrip(c, obs, meta, want_order_only=True)
    # encode(char**) path for a slice of the cases
    lines2, meta2 = gen_cases(seed + 2000, n // 4, shuffle=True, ops='ENCPTR')
    for k in list(meta2):
        pass
    obs2 = run_script(c, exe, lines2, n // 4, 'c02ptr')
    for k, o in obs2.items():
        if 'ENCPTR' in o.ops:
            o.ops['ENC'] = o.ops['ENCPTR']
    check_roundtrip(c, obs2, meta2, want_order_only=True)
    c.samples = [sample_of(meta, 1), sample_of(meta2, 2)]
    c.distinct_names = ['message_shape']
    c.rule = ('C01\'s generator with SHUFFLED insertion order of the fields of every section and group element; every encoded byte '
              'string is tokenised independently and checked: 8,9,35 first, BodyLength == bytes between field 9 and field 10, '
              '3-digit CheckSum == byte sum mod 256, every token decimal-tag=value SOH (Length/data pairs by announced length), '
              'header < body < trailer, schema position order inside every section, each group = count + that many elements each '
              'starting with the group\'s first field; both encode(f8String&) and encode(char**); distinct = message shapes')
    c.assumptions = ['schema position order = document order of the schema with components expanded in place (independent model)']
    c.finish()


def c11(tier, seed):
    c = Check('C11', tier, seed)
    exe = c.build('asan', ['codec_exec'])['codec_exec']
    n = 3000 if c.quick else 200000
    lines, meta = gen_cases(seed + 3000, n, shuffle=False, ops='ENC CLONE COPY MOVE')
    obs = run_script(c, exe, lines, n, 'c11')
    shapes = set()
    for k, (cn, s, pairs, msg) in meta.items():
        o = obs.get(k)
        c.evaluations += 1
        if o is None or 'ENC' not in o.ops or o.ops['ENC'][0] != 'ok':
            continue
        ref = o.ops['ENC'][1]
        ctxs = 'ctx=%s msg=%s case=%d' % (cn, msg['msgtype'], k)
        cls = '+'.join(sorted(field_class(s, msg) & {'group', 'empty-group', 'nested-group'})) or 'no-groups'
        nfields = sum(fixgen.count_items(msg[x]) for x in ('header', 'body', 'trailer'))
        for op in ('CLONE', 'COPY', 'MOVE'):
            if op not in o.ops:
                continue
            st, pl = o.ops[op]
            if st != 'ok':
                c.add_violation('oracle:%s-threw|%s' % (op.lower(), cls), '%s: %s' % (ctxs, exc_text(pl)[:200]))
                continue
            if op == 'CLONE':
                got = pl
            else:
                cnt, _, got = pl.partition(' ')     # the returned count is not part of the property (move counts a group once)
                c.stats[op.lower() + '_fields_transferred'] = c.stats.get(op.lower() + '_fields_transferred', 0) + int(cnt)
            if got != ref:
                a, b = unhex(ref), unhex(got)
                i = 0
                while i < min(len(a), len(b)) and a[i] == b[i]:
                    i += 1
                c.add_violation('oracle:%s-encoding-differs|%s' % (op.lower(), cls), '%s: first difference at byte %d: original %r, %s %r' % (ctxs, i, a[max(0, i - 20):i + 40], op.lower(), b[max(0, i - 20):i + 40]))
        shapes.add(hash(fixgen.shape(msg)))
    c.hashes['message_shape'] = shapes
    c.samples = [sample_of(meta, 3)]
    c.rule = ('C01\'s generator (nested groups, zero-count groups, random subsets); for each message: encode(clone(m)) == encode(m); '
              'copy_legal / move_legal of header, body and trailer into an empty deep message of the same type must encode to the same '
              'bytes (source encoding taken from an identically built twin) and transfer exactly the number of present fields; ASan '
              'watches ownership of moved groups; distinct = message shapes')
    c.assumptions = ['SendingTime is set explicitly so encodings are comparable']
    c.finish()


# ---------------------------------------------------------------------------------------------------------
# decode-only checks: inputs are byte strings built from the reference rendering of generated messages

def raw_cases(entries, ops):
    """entries: list of (ctxname, msgtype, raw bytes, class label) -> script lines"""
    lines = []
    for k, (cn, mt, raw, cls) in enumerate(entries):
        lines += ['CASE %d %s' % (k, cn), 'M ' + mt, 'CLASS ' + cls, 'RAW ' + (raw.hex() or '00'), 'DO ' + ops, 'END']
    return lines


def all_pairs():
    """every (Length, data) pair of both schemas: (ctx idx, root msgtype, [group path nums], length num, data num, where)"""
    out = []
    for i, (cn, s, pairs) in enumerate(schemas()):
        def rec(root, path, sect, where):
            for ln, dt in s.data_pairs(sect):
                out.append((i, root, list(path), ln.num, dt.num, where + ('-group' if path else '')))
            for m in sect.members:
                if m.group:
                    rec(root, path + [m.num], m.group, where)
        first = s.msg_order[5]
        rec(first, [], s.header, 'header')
        rec(first, [], s.trailer, 'trailer')
        for mt in s.msg_order:
            rec(mt, [], s.messages[mt], 'body')
    return out


PAYLOAD_CLASSES = ['printable', 'contains-soh', 'contains-equals', 'contains-soh-10=', 'high-bit', 'contains-nul', 'length-1', 'length-2047', 'mixed-binary']


def payload(rng, cls):
    n = rng.randint(2, 120)
    if cls == 'printable':
        return bytes(rng.randint(32, 126) for _ in range(n))
    if cls == 'contains-soh':
        b = bytearray(rng.randint(32, 126) for _ in range(n))
        for _ in range(rng.randint(1, 4)):
            b[rng.randrange(n)] = 1
        return bytes(b)
    if cls == 'contains-equals':
        b = bytearray(rng.randint(48, 57) for _ in range(n))
        for _ in range(rng.randint(1, 4)):
            b[rng.randrange(n)] = 61
        return bytes(b)
    if cls == 'contains-soh-10=':
        return bytes(rng.randint(65, 90) for _ in range(5)) + b'\x0110=123\x01' + bytes(rng.randint(65, 90) for _ in range(rng.randint(0, 9)))
    if cls == 'high-bit':
        return bytes(rng.randint(128, 255) for _ in range(n))
    if cls == 'contains-nul':
        b = bytearray(rng.randint(33, 126) for _ in range(n))
        b[rng.randrange(1, n)] = 0
        return bytes(b)
    if cls == 'length-1':
        return bytes([rng.choice([1, 61, 65, 255])])
    if cls == 'length-2047':
        return bytes(rng.choice([1, 61, 65, 66, 200]) for _ in range(2047))
    return bytes(rng.choice([0 if False else 1, 61, 10, 13, 127, 200, 65, 32]) for _ in range(n))


def c06(tier, seed):
    c = Check('C06', tier, seed)
    exe = c.build('asan', ['codec_exec'])['codec_exec']
    sch = schemas()
    rng = random.Random(seed * 31 + 6)
    pairs_list = all_pairs()
    n = 2400 if c.quick else 100000
    api_lines, api_meta, raw_entries, raw_meta = [], {}, [], {}
    gens = [fixgen.Gen(s, rng, max_str=16, opt_pct=12) for _, s, _ in sch]
    for k in range(n):
        i, root, path, lnum, dnum, where = pairs_list[k % len(pairs_list)] if k < 3 * len(pairs_list) else rng.choice(pairs_list)
        cn, s, pm = sch[i]
        cls = PAYLOAD_CLASSES[(k // len(pairs_list)) % len(PAYLOAD_CLASSES)] if k < 3 * len(pairs_list) else rng.choice(PAYLOAD_CLASSES)
        g = gens[i]
        g.force = set(path) | {lnum, dnum}
        g.override = {dnum: payload(rng, cls)}
        msg = g.message(root)
        for _ in range(6):      # stay within the maximum message length (larger messages are C03's business)
            if len(fixgen.render(msg, s.begin_string)) < 7600:
                break
            g.opt_pct, g.max_elems = 4, 1
            msg = g.message(root)
        g.opt_pct, g.max_elems = 12, 3
        g.force, g.override = set(), {}
        if len(fixgen.render(msg, s.begin_string)) >= 7600:
            continue
        label = '%s|%s' % (where, cls)
        if cls != 'contains-nul':      # the generic factory builds fields from C strings: NUL cannot be built through it
            kk = len(api_meta)
            api_lines += ['CASE %d %s' % (kk, cn)] + fixgen.script_lines(msg) + ['CLASS ' + label, 'DO ENC DEC', 'END']
            api_meta[kk] = (cn, s, pm, msg, label)
        raw_meta[len(raw_entries)] = (cn, s, pm, msg, label)
        raw_entries.append((cn, root, fixgen.render(msg, s.begin_string), label))
    obs = run_script(c, exe, api_lines, len(api_meta), 'c06api')
    # reuse the C01 oracle, re-keyed by the pair's location and payload class
    sub = Check.__new__(Check)
    sub.__dict__.update(c.__dict__)
    sub.violations, sub.evaluations, sub.hashes, sub.stats = [], 0, {}, {}
    check_roundtrip(sub, obs, {k: v[:4] for k, v in api_meta.items()})
    for v in sub.violations:
        m = re.search(r'case=(\d+)', v.detail)
        label = api_meta[int(m.group(1))][4] if m else '?'
        c.add_violation(v.key.split('|')[0] + '|api|' + label, v.detail)
    c.evaluations += sub.evaluations
    obs2 = run_script(c, exe, raw_cases(raw_entries, 'RAWDEC'), len(raw_entries), 'c06raw')
    seen = set()
    for k, (cn, s, pm, msg, label) in raw_meta.items():
        o = obs2.get(k)
        c.evaluations += 1
        if o is None:
            continue
        raw = raw_entries[k][2]
        ctxs = 'ctx=%s msg=%s case=%d pair=%s' % (cn, msg['msgtype'], k, label)
        if 'RAWDEC' not in o.ops or o.ops['RAWDEC'][0] != 'ok':
            c.add_violation('oracle:decode-rejects-data-field|raw|' + label, '%s: %s wire=%r' % (ctxs, exc_text(o.ops.get('RAWDEC', ('', ''))[1])[:120], raw[:160]))
            continue
        p = fixwire.parse_message(raw, s, pm)
        want, got = dump_parsed(p, s), o.ops['RAWDEC'][1]
        if want != got:
            i = 0
            while i < min(len(got), len(want)) and got[i] == want[i]:
                i += 1
            c.add_violation('oracle:data-field-content-differs|raw|' + label, '%s: at dump offset %d got ...%s want ...%s' % (ctxs, i, got[max(0, i - 30):i + 50], want[max(0, i - 30):i + 50]))
            continue
        seen.add(hash((cn, label, msg['msgtype'])))
    c.hashes['pair_class'] = seen
    c.extra['data_pairs_in_schemas'] = len(pairs_list)
    c.samples = [{'pair': raw_meta[0][4], 'wire': raw_entries[0][2].decode('latin-1')[:300]}, {'pair': raw_meta[7][4], 'wire': raw_entries[7][2].decode('latin-1')[:300]}]
    c.distinct_names = ['pair_class']
    c.rule = ('every (Length, data) pair the independent schema model finds in header, bodies, trailer and repeating groups of both schemas '
              'x payload classes {printable, SOH, "=", SOH+"10=", high-bit, NUL, length 1, length 2047, mixed}; two paths: built through the '
              'API then encode/decode/re-encode (C01 oracle), and reference-rendered bytes decoded by the factory (all classes incl. NUL); the '
              'payload and every following field must come back identical; distinct = (schema, message, pair location, payload class)')
    c.assumptions = ['payload length <= 2047 (FIX8_MAX_FLD_LENGTH - 1)', 'NUL payloads are only exercised on the decode side (the metadata factory takes C strings)']
    c.finish()
