"""C01 C02 C03 C04 C05 C06 C11: message codec checks.  Generator and oracles are python over the
independent schema model; the real codec runs in harness/codec_exec.cpp under ASan+UBSan."""
import os
import random
import re

from runner import Check, REPO, NWORK
import fixschema
import fixgen
import fixwire

SCHEMAS = [('utest', 'schema/FIX42UTEST.xml'), ('f44', 'schema/FIX44.xml')]
_cache = {}


def schemas():
    if 'S' not in _cache:
        out = []
        for n, p in SCHEMAS:
            s = fixschema.Schema(os.path.join(REPO, p))
            out.append((n, s, fixwire.data_pairs_map(s)))
        _cache['S'] = out
    return _cache['S']


def unhex(h):
    try:
        return bytes.fromhex(h) if h else b''
    except ValueError:      # a line cut short by a crash of the executor
        return b''


class Obs:
    """observations of one case: op -> (status, payload)"""

    def __init__(self):
        self.ops = {}


def run_script(c, exe, cases_lines, ncases, label, per_case_timeout=5.0, workers=NWORK):
    """write the script, run codec_exec over it, return {case: Obs}"""
    path = os.path.join(c.scratch, label + '.script')
    with open(path, 'w') as f:
        f.write('\n'.join(cases_lines))
        f.write('\n')
    outs = c.run_cases(exe, ['--script', path, '--case-seconds', '30'], ncases, per_case_timeout=per_case_timeout, label=label, workers=workers)
    obs = {}
    for w in outs:
        for line in w.lines:
            if not line.startswith('O '):
                continue
            parts = line.split(' ', 4)
            if len(parts) < 4 or not parts[1].isdigit():
                continue    # line cut short by a crash
            n = int(parts[1])
            o = obs.setdefault(n, Obs())
            o.ops[parts[2]] = (parts[3], parts[4] if len(parts) > 4 else '')
    return obs


def dump_nodes(nodes, schema):
    out = ''
    for n in nodes:
        out += '%d=%s' % (n.tag, n.val.hex())
        if n.elems is not None:
            out += '{' + ''.join('[' + dump_nodes(e, schema) + ']' for e in n.elems) + '}'
        out += ','
    return out


def dump_parsed(p, schema):
    return 'H:%s B:%s T:%s' % (dump_nodes(p['header'], schema), dump_nodes(p['body'], schema), dump_nodes(p['trailer'], schema))


def exc_text(payload):
    try:
        return unhex(payload).decode('latin-1')
    except ValueError:
        return payload


def field_class(schema, msg):
    """coarse content classes of a generated message, for violation keys"""
    cl = set()

    def walk(items, depth):
        for it in items:
            f = schema.by_num[it.num]
            if f.base == 'int' and it.text.startswith(b'-'):
                cl.add('negative-int')
            if f.type == 'LENGTH' and it.elems is None:
                cl.add('length-field')
            if it.elems is not None:
                cl.add('group' if it.elems else 'empty-group')
                if depth >= 1 and it.elems:
                    cl.add('nested-group')
                for e in it.elems:
                    walk(e, depth + 1)
    for k in ('header', 'body', 'trailer'):
        walk(msg[k], 0)
    return cl


def gen_cases(seed, n, shuffle=False, ops='ENC DEC', **genopts):
    """-> (script lines, {case: (ctxname, schema, pairs, msg)})"""
    sch = schemas()
    rng = random.Random(seed * 7919 + 13)
    gens = [fixgen.Gen(s, rng, **genopts) for _, s, _ in sch]
    lines, meta = [], {}
    order = []
    for i, (cn, s, pairs) in enumerate(sch):
        for mt in s.msg_order:
            order.append((i, mt))
    for k in range(n):
        i, mt = order[k % len(order)] if k < 2 * len(order) else rng.choice(order)
        cn, s, pairs = sch[i]
        msg = gens[i].message(mt)
        lines.append('CASE %d %s' % (k, cn))
        lines += fixgen.script_lines(msg, rng, shuffle)
        lines.append('DO ' + ops)
        lines.append('END')
        meta[k] = (cn, s, pairs, msg)
    return lines, meta


def unpaired_length_key(s, msg):
    """the recorded finding: a LENGTH-typed field that is not the prefix of a data field"""
    def walk(items):
        for idx, it in enumerate(items):
            f = s.by_num[it.num]
            if f.type == 'LENGTH' and it.elems is None:
                nxt = items[idx + 1] if idx + 1 < len(items) else None
                if nxt is None or s.by_num[nxt.num].type not in ('DATA', 'XMLDATA'):
                    return True
            if it.elems:
                for e in it.elems:
                    if walk(e):
                        return True
        return False
    return any(walk(msg[k]) for k in ('header', 'body', 'trailer'))


def check_roundtrip(c, obs, meta, want_order_only=False):
    """shared by C01 (content + inverse) and C02 (well-formedness)"""
    shapes = set()
    for k, (cn, s, pairs, msg) in meta.items():
        o = obs.get(k)
        c.evaluations += 1
        if o is None or 'ENC' not in o.ops:
            continue    # process died: reported by the runner from the sanitizer output
        st, pl = o.ops['ENC']
        ctxs = 'ctx=%s msg=%s case=%d' % (cn, msg['msgtype'], k)
        if st != 'ok':
            c.add_violation('oracle:encode-threw|' + exc_text(pl).split(':')[0], '%s: %s' % (ctxs, exc_text(pl)[:200]))
            continue
        w = unhex(pl)
        try:
            p = fixwire.parse_message(w, s, pairs)
        except fixwire.WireError as e:
            c.add_violation('oracle:wire-malformed|' + e.key, '%s: %s wire=%r' % (ctxs, e, w[:300]))
            continue
        diffs = []
        fixwire.compare_nodes(s, p['header'][3:], msg['header'], 'header', diffs)
        fixwire.compare_nodes(s, p['body'], msg['body'], 'body', diffs)
        fixwire.compare_nodes(s, p['trailer'][:-1], msg['trailer'], 'trailer', diffs)
        if diffs:
            c.add_violation('oracle:wire-' + diffs[0][0], '%s: %s' % (ctxs, diffs[0][1]))
            continue
        shapes.add(hash(fixgen.shape(msg)))
        c.stats['fields_checked'] = c.stats.get('fields_checked', 0) + len(p['tokens'])
        dm = max(fixgen.max_depth(msg['body']), fixgen.max_depth(msg['header']))
        c.stats['max_group_depth'] = max(c.stats.get('max_group_depth', 0), dm)
        if want_order_only:
            continue
        # decode side
        if 'DECDUMP' not in o.ops:
            st2, pl2 = o.ops.get('DEC', ('missing', ''))
            txt = exc_text(pl2)
            cls = 'unpaired-length-field' if unpaired_length_key(s, msg) and 'Value size too large' in txt or \
                (unpaired_length_key(s, msg) and 'fixed width' in txt) else txt.split(':')[0]
            c.add_violation('oracle:decode-rejects-own-encoding|' + cls, '%s: %s wire=%r' % (ctxs, txt[:160], w[:200]))
            continue
        want = dump_parsed(p, s)
        got = o.ops['DECDUMP'][1]
        if got != want:
            # locate first difference for the key
            cls = 'unpaired-length-field' if unpaired_length_key(s, msg) else '+'.join(sorted(field_class(s, msg))) or 'plain'
            i = 0
            while i < min(len(got), len(want)) and got[i] == want[i]:
                i += 1
            c.add_violation('oracle:decoded-content-differs|' + cls, '%s: at dump offset %d got ...%s want ...%s' % (ctxs, i, got[max(0, i - 30):i + 60], want[max(0, i - 30):i + 60]))
            continue
        if 'REENC' not in o.ops:
            c.add_violation('oracle:reencode-failed', ctxs)
            continue
        w2 = unhex(o.ops['REENC'][1])
        if w2 != w:
            i = 0
            while i < min(len(w), len(w2)) and w[i] == w2[i]:
                i += 1
            c.add_violation('oracle:reencode-not-identical', '%s: first difference at byte %d: %r vs %r' % (ctxs, i, w[max(0, i - 20):i + 30], w2[max(0, i - 20):i + 30]))
    c.hashes.setdefault('message_shape', set()).update(shapes)


def sample_of(meta, k=0):
    cn, s, pairs, msg = meta[k]
    return {'ctx': cn, 'msgtype': msg['msgtype'], 'wire': fixgen.render(msg, s.begin_string).decode('latin-1')[:400]}


def c01(tier, seed):
    c = Check('C01', tier, seed)
    exe = c.build('asan', ['codec_exec'])['codec_exec']
    n = 4000 if c.quick else 300000
    lines, meta = gen_cases(seed, n, shuffle=False, ops='ENC DEC')
    obs = run_script(c, exe, lines, n, 'c01')
    check_roundtrip(c, obs, meta)
    c.samples = [sample_of(meta, 0), sample_of(meta, len(meta) // 2)]
    c.distinct_names = ['message_shape']
    c.rule = ('every message type of FIX42UTEST and FIX44 round-robin, then random types; random optional-field subsets, values over '
              'each declared type\'s domain (negative and boundary ints, floats with <=2 decimals, printable strings incl. "=" and '
              'blanks, ms timestamps 1970..2099, Length/data pairs), groups with 0..3 elements nested to the schema\'s depth; '
              'encode -> independent schema-directed wire parse compared token by token with the intended content -> factory -> '
              'dump of the decoded object == wire tokens -> re-encode byte-identical; distinct = distinct (msgtype, field/group shape)')
    c.assumptions = ['each Message object is encoded once (API contract)', 'float equality on the wire is numeric (trailing-zero trimming is free)',
                     'fields are created through the metadata factory from their text, as the decoder does']
    c.finish()


def c02(tier, seed):
    c = Check('C02', tier, seed)
    exe = c.build('asan', ['codec_exec'])['codec_exec']
    n = 4000 if c.quick else 300000
    lines, meta = gen_cases(seed + 1000, n, shuffle=True, ops='ENC')
    obs = run_script(c, exe, lines, n, 'c02')
    check_roundtrip(c, obs, meta, want_order_only=True)
    # encode(char**) path for a slice of the cases
    lines2, meta2 = gen_cases(seed + 2000, n // 4, shuffle=True, ops='ENCPTR')
    for k in list(meta2):
        pass
    obs2 = run_script(c, exe, lines2, n // 4, 'c02ptr')
    for k, o in obs2.items():
        if 'ENCPTR' in o.ops:
            o.ops['ENC'] = o.ops['ENCPTR']
    check_roundtrip(c, obs2, meta2, want_order_only=True)
    c.samples = [sample_of(meta, 1), sample_of(meta2, 2)]
    c.distinct_names = ['message_shape']
    c.rule = ('C01\'s generator with SHUFFLED insertion order of the fields of every section and group element; every encoded byte '
              'string is tokenised independently and checked: 8,9,35 first, BodyLength == bytes between field 9 and field 10, '
              '3-digit CheckSum == byte sum mod 256, every token decimal-tag=value SOH (Length/data pairs by announced length), '
              'header < body < trailer, schema position order inside every section, each group = count + that many elements each '
              'starting with the group\'s first field; both encode(f8String&) and encode(char**); distinct = message shapes')
    c.assumptions = ['schema position order = document order of the schema with components expanded in place (independent model)']
    c.finish()


def c11(tier, seed):
    c = Check('C11', tier, seed)
    exe = c.build('asan', ['codec_exec'])['codec_exec']
    n = 3000 if c.quick else 200000
    lines, meta = gen_cases(seed + 3000, n, shuffle=False, ops='ENC CLONE COPY MOVE')
    obs = run_script(c, exe, lines, n, 'c11')
    shapes = set()
    for k, (cn, s, pairs, msg) in meta.items():
        o = obs.get(k)
        c.evaluations += 1
        if o is None or 'ENC' not in o.ops or o.ops['ENC'][0] != 'ok':
            continue
        ref = o.ops['ENC'][1]
        ctxs = 'ctx=%s msg=%s case=%d' % (cn, msg['msgtype'], k)
        cls = '+'.join(sorted(field_class(s, msg) & {'group', 'empty-group', 'nested-group'})) or 'no-groups'
        nfields = sum(fixgen.count_items(msg[x]) for x in ('header', 'body', 'trailer'))
        for op in ('CLONE', 'COPY', 'MOVE'):
            if op not in o.ops:
                continue
            st, pl = o.ops[op]
            if st != 'ok':
                c.add_violation('oracle:%s-threw|%s' % (op.lower(), cls), '%s: %s' % (ctxs, exc_text(pl)[:200]))
                continue
            if op == 'CLONE':
                got = pl
            else:
                cnt, _, got = pl.partition(' ')     # the returned count is not part of the property (move counts a group once)
                c.stats[op.lower() + '_fields_transferred'] = c.stats.get(op.lower() + '_fields_transferred', 0) + int(cnt)
            if got != ref:
                a, b = unhex(ref), unhex(got)
                i = 0
                while i < min(len(a), len(b)) and a[i] == b[i]:
                    i += 1
                c.add_violation('oracle:%s-encoding-differs|%s' % (op.lower(), cls), '%s: first difference at byte %d: original %r, %s %r' % (ctxs, i, a[max(0, i - 20):i + 40], op.lower(), b[max(0, i - 20):i + 40]))
        shapes.add(hash(fixgen.shape(msg)))
    c.hashes['message_shape'] = shapes
    c.samples = [sample_of(meta, 3)]
    c.rule = ('C01\'s generator (nested groups, zero-count groups, random subsets); for each message: encode(clone(m)) == encode(m); '
              'copy_legal / move_legal of header, body and trailer into an empty deep message of the same type must encode to the same '
              'bytes (source encoding taken from an identically built twin) and transfer exactly the number of present fields; ASan '
              'watches ownership of moved groups; distinct = message shapes')
    c.assumptions = ['SendingTime is set explicitly so encodings are comparable']
    c.finish()


# ---------------------------------------------------------------------------------------------------------
# decode-only checks: inputs are byte strings built from the reference rendering of generated messages

def raw_cases(entries, ops):
    """entries: list of (ctxname, msgtype, raw bytes, class label) -> script lines"""
    lines = []
    for k, (cn, mt, raw, cls) in enumerate(entries):
        lines += ['CASE %d %s' % (k, cn), 'M ' + mt, 'CLASS ' + cls, 'RAW ' + (raw.hex() or '00'), 'DO ' + ops, 'END']
    return lines


def all_pairs():
    """every (Length, data) pair of both schemas: (ctx idx, root msgtype, [group path nums], length num, data num, where)"""
    out = []
    for i, (cn, s, pairs) in enumerate(schemas()):
        def rec(root, path, sect, where):
            for ln, dt in s.data_pairs(sect):
                out.append((i, root, list(path), ln.num, dt.num, where + ('-group' if path else '')))
            for m in sect.members:
                if m.group:
                    rec(root, path + [m.num], m.group, where)
        first = s.msg_order[5]
        rec(first, [], s.header, 'header')
        rec(first, [], s.trailer, 'trailer')
        for mt in s.msg_order:
            rec(mt, [], s.messages[mt], 'body')
    return out


PAYLOAD_CLASSES = ['printable', 'contains-soh', 'contains-equals', 'contains-soh-10=', 'high-bit', 'contains-nul', 'length-1', 'length-2047', 'mixed-binary']


def payload(rng, cls):
    n = rng.randint(2, 120)
    if cls == 'printable':
        return bytes(rng.randint(32, 126) for _ in range(n))
    if cls == 'contains-soh':
        b = bytearray(rng.randint(32, 126) for _ in range(n))
        for _ in range(rng.randint(1, 4)):
            b[rng.randrange(n)] = 1
        return bytes(b)
    if cls == 'contains-equals':
        b = bytearray(rng.randint(48, 57) for _ in range(n))
        for _ in range(rng.randint(1, 4)):
            b[rng.randrange(n)] = 61
        return bytes(b)
    if cls == 'contains-soh-10=':
        return bytes(rng.randint(65, 90) for _ in range(5)) + b'\x0110=123\x01' + bytes(rng.randint(65, 90) for _ in range(rng.randint(0, 9)))
    if cls == 'high-bit':
        return bytes(rng.randint(128, 255) for _ in range(n))
    if cls == 'contains-nul':
        b = bytearray(rng.randint(33, 126) for _ in range(n))
        b[rng.randrange(1, n)] = 0
        return bytes(b)
    if cls == 'length-1':
        return bytes([rng.choice([1, 61, 65, 255])])
    if cls == 'length-2047':
        return bytes(rng.choice([1, 61, 65, 66, 200]) for _ in range(2047))
    return bytes(rng.choice([0 if False else 1, 61, 10, 13, 127, 200, 65, 32]) for _ in range(n))


def c06(tier, seed):
    c = Check('C06', tier, seed)
    exe = c.build('asan', ['codec_exec'])['codec_exec']
    sch = schemas()
    rng = random.Random(seed * 31 + 6)
    pairs_list = all_pairs()
    n = 2400 if c.quick else 100000
    api_lines, api_meta, raw_entries, raw_meta = [], {}, [], {}
    gens = [fixgen.Gen(s, rng, max_str=16, opt_pct=12) for _, s, _ in sch]
    for k in range(n):
        i, root, path, lnum, dnum, where = pairs_list[k % len(pairs_list)] if k < 3 * len(pairs_list) else rng.choice(pairs_list)
        cn, s, pm = sch[i]
        cls = PAYLOAD_CLASSES[(k // len(pairs_list)) % len(PAYLOAD_CLASSES)] if k < 3 * len(pairs_list) else rng.choice(PAYLOAD_CLASSES)
        g = gens[i]
        g.force = set(path) | {lnum, dnum}
        g.override = {dnum: payload(rng, cls)}
        msg = g.message(root)
        for _ in range(6):      # stay within the maximum message length (larger messages are C03's business)
            if len(fixgen.render(msg, s.begin_string)) < 7600:
                break
            g.opt_pct, g.max_elems = 4, 1
            msg = g.message(root)
        g.opt_pct, g.max_elems = 12, 3
        g.force, g.override = set(), {}
        if len(fixgen.render(msg, s.begin_string)) >= 7600:
            continue
        label = '%s|%s' % (where, cls)
        if cls != 'contains-nul':      # the generic factory builds fields from C strings: NUL cannot be built through it
            kk = len(api_meta)
            api_lines += ['CASE %d %s' % (kk, cn)] + fixgen.script_lines(msg) + ['CLASS ' + label, 'DO ENC DEC', 'END']
            api_meta[kk] = (cn, s, pm, msg, label)
        raw_meta[len(raw_entries)] = (cn, s, pm, msg, label)
        raw_entries.append((cn, root, fixgen.render(msg, s.begin_string), label))
    obs = run_script(c, exe, api_lines, len(api_meta), 'c06api')
    # reuse the C01 oracle, re-keyed by the pair's location and payload class
    sub = Check.__new__(Check)
    sub.__dict__.update(c.__dict__)
    sub.violations, sub.evaluations, sub.hashes, sub.stats = [], 0, {}, {}
    check_roundtrip(sub, obs, {k: v[:4] for k, v in api_meta.items()})
    for v in sub.violations:
        m = re.search(r'case=(\d+)', v.detail)
        label = api_meta[int(m.group(1))][4] if m else '?'
        c.add_violation(v.key.split('|')[0] + '|api|' + label, v.detail)
    c.evaluations += sub.evaluations
    obs2 = run_script(c, exe, raw_cases(raw_entries, 'RAWDEC'), len(raw_entries), 'c06raw')
    seen = set()
    for k, (cn, s, pm, msg, label) in raw_meta.items():
        o = obs2.get(k)
        c.evaluations += 1
        if o is None:
            continue
        raw = raw_entries[k][2]
        ctxs = 'ctx=%s msg=%s case=%d pair=%s' % (cn, msg['msgtype'], k, label)
        if 'RAWDEC' not in o.ops or o.ops['RAWDEC'][0] != 'ok':
            c.add_violation('oracle:decode-rejects-data-field|raw|' + label, '%s: %s wire=%r' % (ctxs, exc_text(o.ops.get('RAWDEC', ('', ''))[1])[:120], raw[:160]))
            continue
        p = fixwire.parse_message(raw, s, pm)
        want, got = dump_parsed(p, s), o.ops['RAWDEC'][1]
        if want != got:
            i = 0
            while i < min(len(got), len(want)) and got[i] == want[i]:
                i += 1
            c.add_violation('oracle:data-field-content-differs|raw|' + label, '%s: at dump offset %d got ...%s want ...%s' % (ctxs, i, got[max(0, i - 30):i + 50], want[max(0, i - 30):i + 50]))
            continue
        seen.add(hash((cn, label, msg['msgtype'])))
    c.hashes['pair_class'] = seen
    c.extra['data_pairs_in_schemas'] = len(pairs_list)
    c.samples = [{'pair': raw_meta[0][4], 'wire': raw_entries[0][2].decode('latin-1')[:300]}, {'pair': raw_meta[7][4], 'wire': raw_entries[7][2].decode('latin-1')[:300]}]
    c.distinct_names = ['pair_class']
    c.rule = ('every (Length, data) pair the independent schema model finds in header, bodies, trailer and repeating groups of both schemas '
              'x payload classes {printable, SOH, "=", SOH+"10=", high-bit, NUL, length 1, length 2047, mixed}; two paths: built through the '
              'API then encode/decode/re-encode (C01 oracle), and reference-rendered bytes decoded by the factory (all classes incl. NUL); the '
              'payload and every following field must come back identical; distinct = (schema, message, pair location, payload class)')
    c.assumptions = ['payload length <= 2047 (FIX8_MAX_FLD_LENGTH - 1)', 'NUL payloads are only exercised on the decode side (the metadata factory takes C strings)']
    c.finish()


# ---------------------------------------------------------------------------------------------------------
# C03: hostile bytes into the factory (4 mode combinations), oversized values into the encoder

def fix_trailer(b):
    """recompute BodyLength and CheckSum of a mutated message where its frame is still recognisable"""
    try:
        i9 = b.index(b'\x019=') + 1
        e9 = b.index(b'\x01', i9)
        t = b.rindex(b'\x0110=') + 1
    except ValueError:
        return b
    body = b[e9 + 1:t]
    nb = b[:i9] + b'9=' + str(len(body)).encode() + b'\x01' + body
    return nb + b'10=' + ('%03d' % (sum(nb) % 256)).encode() + b'\x01'


def tokens_of(b):
    """(start, eq, end) of each tag=value SOH token found by a plain SOH split"""
    out, i = [], 0
    while i < len(b):
        e = b.find(b'\x01', i)
        if e < 0:
            e = len(b) - 1
        q = b.find(b'=', i, e + 1)
        out.append((i, q, e + 1))
        i = e + 1
    return out


HOSTILE = ['long-tag', 'long-value', 'no-equals', 'no-soh', 'truncate', 'group-count', 'length-lies', 'preamble', 'short', 'bytes',
           'random', 'early-checksum', 'no-trailer', 'dup-tokens', 'huge-tag-number', 'empty-value', 'tail-garbage']


def _tagnum(base, t):
    """tag number of a token, -1 when it is not a short digit string (an earlier mutation may have made it thousands of digits long)"""
    st, q, en = t
    return int(base[st:q]) if 0 < q - st <= 9 and base[st:q].isdigit() else -1


def hostile(rng, base, cls, s, pairs):
    toks = tokens_of(base)
    b = bytearray(base)
    pick = lambda lo=0: toks[rng.randrange(lo, len(toks))] if len(toks) > lo else toks[-1]
    if cls == 'long-tag':
        st, q, en = pick()
        n = rng.choice([5, 6, 10, 11, 20, 31, 32, 33, 64, 100, 1000, 2047, 2048, 2049, 4000, 7000])
        digits = bytes(rng.randint(48, 57) for _ in range(n))
        b[st:q] = digits
    elif cls == 'long-value':
        st, q, en = pick()
        n = rng.choice([31, 32, 33, 100, 2046, 2047, 2048, 2049, 2050, 3000, 4095, 4096, 6000, 7900])
        b[q + 1:en - 1] = bytes(rng.choice([65, 48, 32, 61, 200]) for _ in range(n))
    elif cls == 'no-equals':
        st, q, en = pick()
        if q >= 0:
            del b[q]
    elif cls == 'no-soh':
        for _ in range(rng.randint(1, 3)):
            st, q, en = pick()
            if en - 1 < len(b) and b[en - 1] == 1:
                b[en - 1] = rng.choice([32, 124, 0, 2])
    elif cls == 'truncate':
        b = b[:rng.randrange(0, len(b))]
    elif cls == 'group-count':
        groups = [t for t in toks if _tagnum(base, t) in s.by_num and s.by_num[_tagnum(base, t)].type == 'NUMINGROUP']
        if groups:
            st, q, en = rng.choice(groups)
            b[q + 1:en - 1] = rng.choice([b'0', b'1', b'2', b'99', b'65535', b'2147483647', b'4294967295', b'-1', b'-2147483648', b'x', b'', b'1e9', b'00000000000000000001'])
    elif cls == 'length-lies':
        lens = [t for t in toks if _tagnum(base, t) in pairs]
        if lens:
            st, q, en = rng.choice(lens)
            b[q + 1:en - 1] = rng.choice([b'0', b'1', b'2046', b'2047', b'2048', b'2049', b'8000', b'65535', b'65536', b'2147483647', b'4294967295', b'4294967296', b'-1', b'-5', b'x', b'', str(len(base)).encode(), str(len(base) - en).encode(), str(max(0, len(base) - en - 8)).encode()])
        else:
            cls = 'length-lies-none'
    elif cls == 'preamble':
        k = rng.randrange(9)
        t8, t9, t35 = toks[0], toks[1], toks[2]
        if k == 0:
            b[t8[1] + 1:t8[2] - 1] = bytes(65 for _ in range(rng.choice([31, 32, 33, 100, 2047, 2048, 5000])))
        elif k == 1:
            b[t9[1] + 1:t9[2] - 1] = bytes(rng.randint(48, 57) for _ in range(rng.choice([8, 10, 11, 31, 32, 33, 100, 2047, 2048, 5000])))
        elif k == 2:
            b[t35[1] + 1:t35[2] - 1] = bytes(65 for _ in range(rng.choice([2, 3, 31, 32, 33, 100, 2047, 2048, 5000])))
        elif k == 3:
            seg = [bytes(b[t[0]:t[2]]) for t in (t8, t9, t35)]
            rng.shuffle(seg)
            b[0:t35[2]] = b''.join(seg)
        elif k == 4:
            b[0:0] = bytes(b[t8[0]:t8[2]])
        elif k == 5:
            b[t9[1] + 1:t9[2] - 1] = rng.choice([b'0', b'-1', b'x', b'', b'99999999', b'4294967295', b'4294967303'])
        elif k == 6:
            del b[t35[0]:t35[2]]
        elif k == 7:
            b[t8[0]:t8[1]] = bytes(rng.randint(48, 57) for _ in range(rng.choice([2, 31, 32, 33, 40, 100, 3000])))
        else:
            b[t35[0]:t35[1]] = b'35' + bytes(rng.randint(48, 57) for _ in range(rng.choice([1, 29, 30, 31, 40, 100, 3000])))
    elif cls == 'short':
        n = rng.randrange(0, 24)
        b = b[:n] if rng.random() < 0.5 else (b[-n:] if n else b[:0])
    elif cls == 'bytes':
        for _ in range(rng.randint(1, 12)):
            if b:
                b[rng.randrange(len(b))] = rng.choice([0, 255, 128, 1, 61, 10, 13, 127, rng.randrange(256)])
    elif cls == 'random':
        n = rng.choice([0, 1, 5, 6, 7, 8, 20, 100, 1000, 8192])
        al = rng.choice([list(range(256)), [1, 61, 48, 49, 56, 57, 51, 53], [48, 49, 50], [1], [61]])
        b = bytearray(rng.choice(al) for _ in range(n))
    elif cls == 'early-checksum':
        st, q, en = pick(3)
        b[st:st] = b'10=' + bytes(rng.randint(48, 57) for _ in range(3)) + b'\x01'
    elif cls == 'no-trailer':
        t = base.rfind(b'\x0110=')
        b = b[:t + 1] + bytearray(rng.choice([b'', b'10=', b'10=1', b'10=12\x01', b'10=1234\x01', b'11=123\x01', b'10=12', b'1']))
    elif cls == 'dup-tokens':
        st, q, en = pick(3)
        seg = bytes(b[st:en])
        b[en:en] = seg * rng.choice([1, 2, 50, 400])
    elif cls == 'huge-tag-number':
        st, q, en = pick(3)
        b[st:q] = rng.choice([b'65535', b'65536', b'65537', b'99999', b'4294967295', b'4294967296', b'4294967297', b'18446744073709551616', b'0', b'00', b'000035'])
    elif cls == 'empty-value':
        st, q, en = pick()
        b[q + 1:en - 1] = b''
    elif cls == 'tail-garbage':
        b += bytes(rng.randrange(256) for _ in range(rng.randint(1, 30)))
    b = bytes(b[:8192])
    if cls not in ('short', 'random', 'truncate', 'no-trailer', 'tail-garbage') and rng.random() < 0.6:
        b = fix_trailer(b)[:8192]
    return b, cls


def input_features(b):
    """input classes used in violation keys (what the input is, not where fix8 fails)"""
    f = []
    if len(b) < 7:
        f.append('shorter-than-7-bytes')
    mv = mt = 0
    for st, q, en in tokens_of(b):
        if q >= 0:
            mt = max(mt, q - st)
            mv = max(mv, en - 1 - q - 1)
        else:
            mt = max(mt, en - st)
    if mv > 2047:
        f.append('value-longer-than-2047')
    if mt > 2047:
        f.append('tag-longer-than-2047')
    elif mt > 31:
        f.append('tag-longer-than-31')
    pre = tokens_of(b[:9000])[:3]
    if any((en - st) > 31 for st, q, en in pre):
        f.append('preamble-element-longer-than-31')
    return '+'.join(f) or 'other'


def c03(tier, seed):
    c = Check('C03', tier, seed)
    exe = c.build('asan', ['codec_exec'])['codec_exec']
    sch = schemas()
    rng = random.Random(seed * 104729 + 3)
    total = 24000 if c.quick else 1000000
    batch = 24000 if c.quick else 50000
    gens = [fixgen.Gen(s, rng, max_str=20, opt_pct=25) for _, s, _ in sch]
    feats, outcomes = set(), {}
    done = 0
    first_samples = []
    while done < total:
        n = min(batch, total - done)
        entries = []
        for k in range(n):
            i = rng.randrange(len(sch))
            cn, s, pm = sch[i]
            mt = rng.choice(s.msg_order)
            base = fixgen.render(gens[i].message(mt), s.begin_string)
            cls = HOSTILE[(done + k) % len(HOSTILE)]
            b, cls = hostile(rng, base, cls, s, pm)
            if rng.random() < 0.15:     # a second mutation on top
                b, cls2 = hostile(rng, b if len(tokens_of(b)) > 3 else base, rng.choice(HOSTILE), s, pm)
                cls += '+' + cls2
            feat = input_features(b)
            entries.append((cn, mt, b, feat + '|' + cls))
            feats.add(hash((feat, cls, cn)))
        obs = run_script(c, exe, raw_cases(entries, 'RAWDEC:noreenc RAWDEC:nochk:noreenc RAWDEC:perm:noreenc RAWDEC:nochk:perm:noreenc'), n,
                         'c03dec%d' % done, per_case_timeout=2.0)
        for k, (cn, mt, b, label) in enumerate(entries):
            o = obs.get(k)
            c.evaluations += 1
            if o is None:
                continue
            for op, (st, pl) in o.ops.items():
                outcomes[st] = outcomes.get(st, 0) + 1
                if st == 'stdexc':
                    c.add_violation('oracle:non-library-exception|decode|' + exc_text(pl).split(':')[0] + '|' + label.split('|')[0],
                                    'ctx=%s op=%s class=%s: %s input=%r' % (cn, op, label, exc_text(pl)[:160], b[:200]))
                elif st == 'null':
                    c.add_violation('oracle:factory-returned-null|' + label.split('|')[0], 'ctx=%s op=%s class=%s input=%r' % (cn, op, label, b[:200]))
        if not first_samples:
            first_samples = [{'class': e[3], 'ctx': e[0], 'input': e[2][:240].decode('latin-1')} for e in entries[:3]]
        done += n
    # ---- encode side: values of growing size through both encode entry points
    nenc = 1500 if c.quick else 60000
    lines, meta = [], {}
    genb = [fixgen.Gen(s, rng, max_str=12, opt_pct=10) for _, s, _ in sch]
    fill = random.Random(seed + 17)
    sizes = [1, 100, 1000, 2047, 2048, 2049, 4000, 6000, 7000, 7500, 7900, 8000, 8100, 8150, 8190, 8192, 8200, 8224, 8300, 9000, 12000, 16384, 20000]
    for k in range(nenc):
        i = rng.randrange(len(sch))
        cn, s, pm = sch[i]
        mt = rng.choice(s.msg_order)
        g = genb[i]
        # one string-family (or data) field of the message gets a value of the chosen size
        cands = [m for m in s.messages[mt].members + s.header.members if not m.group and m.field.base == 'string'
                 and m.field.type in ('STRING', 'DATA', 'XMLDATA', 'MULTIPLEVALUESTRING', 'MULTIPLESTRINGVALUE', 'EXCHANGE') and m.num not in (8, 35) and not m.field.values]
        if not cands:
            continue
        m = rng.choice(cands)
        g.force = {m.num} | ({pl for pl, dn in g.data_after.items() if dn == m.num})
        state = None
        if k < 2 * len(sizes):
            sz = sizes[k % len(sizes)]
        elif k % 3 == 0:
            sz = rng.randint(1, 7000)
        else:
            # aim the encoded size at the neighbourhood of the limit (never above it: the recorded finding is sampled by the first cases)
            g.override = {m.num: b'A'}
            state = rng.getstate()
            base = len(fixgen.render(g.message(mt), s.begin_string))
            rng.setstate(state)
            sz = max(1, rng.choice([8192, 8191, 8190, 8180, 8100, 8000, rng.randint(7000, 8192)]) - base - 3)
        g.override = {m.num: bytes(fill.choice([65, 66, 48, 32]) for _ in range(sz))}
        if state is not None:
            rng.setstate(state)     # same structure as the probe that measured the base size
        msg = g.message(mt)
        g.force, g.override = set(), {}
        est = len(fixgen.render(msg, s.begin_string))
        label = 'encoded-size-%s|value-size-%d' % ('above-max-msg-length' if est > 8192 else 'within-max-msg-length', sz)
        kk = len(meta)
        lines += ['CASE %d %s' % (kk, cn)] + fixgen.script_lines(msg) + ['CLASS ' + label.split('|')[0], 'DO ' + ('ENC' if k % 2 else 'ENCPTR'), 'END']
        meta[kk] = (cn, s, pm, msg, label, est)
    obs = run_script(c, exe, lines, len(meta), 'c03enc', per_case_timeout=2.0)
    encok = 0
    for k, (cn, s, pm, msg, label, est) in meta.items():
        o = obs.get(k)
        c.evaluations += 1
        if o is None:
            continue
        for op, (st, pl) in o.ops.items():
            if st == 'ok':
                w = unhex(pl)
                if w != fixgen.render(msg, s.begin_string):
                    try:
                        fixwire.parse_message(w, s, pm)
                        continue        # float text may legitimately differ; well-formed is enough here (C01/C02 decide content)
                    except fixwire.WireError as e:
                        c.add_violation('oracle:encode-returned-malformed|' + label.split('|')[0], 'ctx=%s msg=%s %s: %s' % (cn, msg['msgtype'], label, e))
                encok += 1
            elif st == 'stdexc':
                c.add_violation('oracle:non-library-exception|encode|' + exc_text(pl).split(':')[0], 'ctx=%s %s: %s' % (cn, label, exc_text(pl)[:160]))
            outcomes['enc-' + st] = outcomes.get('enc-' + st, 0) + 1
        feats.add(hash((label.split('|')[0], est // 512)))
    c.hashes['input_class'] = feats
    c.stats.update({'outcome_' + k: v for k, v in outcomes.items()})
    c.stats['encodes_ok'] = encok
    c.samples = first_samples
    c.distinct_names = ['input_class']
    c.rule = ('decode: reference-rendered valid messages of both schemas mutated by 17 structure-aware operators (tags of 5..7000 digits, values of '
              '31..7900 bytes, missing "="/SOH, truncation at any offset, NumInGroup 0/huge/negative/non-numeric, Length fields lying about the data '
              'size, preamble fields long/reordered/repeated/removed, inputs shorter than 7 bytes, NUL/high-bit bytes, random bytes, early "10=", '
              'missing trailer, repeated tokens, tag numbers >= 65536, empty values, garbage after the checksum; 15% double mutations; 60% with '
              'BodyLength/CheckSum recomputed) fed as exact-size heap strings <= 8192 bytes to Message::factory in strict/permissive x '
              'checksum on/off; every outcome must be a message (then dumped field by field) or an f8Exception; ASan/UBSan/per-case watchdog '
              'decide memory safety, UB, hangs.  encode: messages with one string/data value of 1..20000 bytes through encode(f8String&) and '
              'encode(char**) with an exact-size heap buffer of the documented size; distinct = (input feature class, mutation, schema)')
    c.assumptions = ['inputs are at most FIX8_MAX_MSG_LENGTH (8192) bytes', 'encode(char**) is given FIX8_MAX_MSG_LENGTH+HEADER_CALC_OFFSET bytes, the size the library itself uses',
                     'leaks are not part of the property']
    c.finish()


# ---------------------------------------------------------------------------------------------------------
# C04: strict decoding.  Oracle = conformance predicate over the independent schema model + faithful-content comparison

def parse_dump(d):
    """codec_exec dump -> {'H': nodes, 'B': nodes, 'T': nodes, 'unknown': {'H': bytes,...}}; node = (tag, value bytes, elems|None)"""
    out, unk = {}, {}
    pos = 0

    def nodes(stop):
        nonlocal pos
        res = []
        while pos < len(d) and d[pos] not in stop:
            if d[pos] == '?':
                e = d.index(',', pos)
                unk_val.append(bytes.fromhex(d[pos + 1:e]))
                pos = e + 1
                continue
            q = d.index('=', pos)
            tag = int(d[pos:q])
            pos = q + 1
            e = pos
            while e < len(d) and d[e] in '0123456789abcdef':
                e += 1
            val = bytes.fromhex(d[pos:e])
            pos = e
            elems = None
            if pos < len(d) and d[pos] == '{':
                pos += 1
                elems = []
                while d[pos] == '[':
                    pos += 1
                    elems.append(nodes(']'))
                    pos += 1    # ]
                pos += 1        # }
            pos += 1            # ,
            res.append((tag, val, elems))
        return res
    for sec in 'HBT':
        assert d[pos:pos + 2] == sec + ':', d[pos:pos + 20]
        pos += 2
        unk_val = []
        out[sec] = nodes(' ')
        unk[sec] = b''.join(unk_val)
        pos += 1
    out['unknown'] = unk
    return out


def sem_equal(field, a, b):
    if a == b:
        return True
    from decimal import Decimal, InvalidOperation
    try:
        if field.base == 'int' and field.type != 'LENGTH' or field.type == 'LENGTH':
            return int(a) == int(b)
        if field.base == 'float':
            return Decimal(a.decode()) == Decimal(b.decode())
    except (ValueError, InvalidOperation, UnicodeDecodeError):
        return False
    return False


def tree_diff(schema, dnodes, pnodes, path):
    """first difference between decoded dump nodes and independently parsed wire nodes, or None"""
    if [n[0] for n in dnodes] != [p.tag for p in pnodes]:
        return '%s: decoded tags %s, input tags %s' % (path, [n[0] for n in dnodes], [p.tag for p in pnodes])
    for (tag, val, elems), p in zip(dnodes, pnodes):
        f = schema.by_num.get(tag)
        if f is None or not sem_equal(f, val, p.val):
            return '%s: tag %d decoded %r, input text %r' % (path, tag, val[:60], p.val[:60])
        if p.elems is not None:
            if len(elems or []) != len(p.elems):
                return '%s: group %d decoded %d elements, input has %d' % (path, tag, len(elems or []), len(p.elems))
            for k, (de, pe) in enumerate(zip(elems, p.elems)):
                r = tree_diff(schema, de, pe, '%s/%d[%d]' % (path, tag, k))
                if r:
                    return r
    return None


def missing_mandatory(sect, nodes, path):
    have = {n.tag for n in nodes}
    for m in sect.members:
        if m.required and m.num not in have and m.num not in (8, 9, 35, 10):
            return '%s: mandatory %d absent' % (path, m.num)
    mem = sect.by_num()
    for n in nodes:
        if n.elems:
            g = mem[n.tag].group
            for k, e in enumerate(n.elems):
                r = missing_mandatory(g, e, '%s/%d[%d]' % (path, n.tag, k))
                if r:
                    return r
    return None


def conformance(b, s, pairs):
    """None when the byte string satisfies every acceptance condition of C04, else (class, text)"""
    try:
        p = fixwire.parse_message(b, s, pairs, strict_order=False)
    except fixwire.WireError as e:
        return None, (e.key, str(e))
    for sect, nodes, name in ((s.header, p['header'], 'header'), (s.messages[p['msgtype']], p['body'], 'body'), (s.trailer, p['trailer'], 'trailer')):
        r = missing_mandatory(sect, nodes, name)
        if r:
            return p, ('mandatory-missing', r)
    return p, None


def free_tags(s, n=40):
    """tags with no dictionary entry"""
    out, t = [], 1
    cands = [20000, 9999, 6000, 5001, 1500, 40000, 65535, 65000, 12345]
    for t in cands + list(range(2, 5000)):
        if t not in s.by_num and t not in out:
            out.append(t)
            if len(out) >= n:
                break
    return out


DEFECTS = ['none', 'numeric-variants', 'unknown-tag', 'unknown-tag-after-mandatory', 'unknown-tag-in-group', 'misplaced-known-tag', 'header-tag-in-body',
           'body-tag-in-trailer', 'trailer-tag-in-body', 'duplicate', 'duplicate-in-header', 'missing-mandatory', 'missing-mandatory-in-group',
           'element-missing-first-field', 'tag-plus-65536', 'long-tag-number', 'wrong-checksum', 'unknown-tag-last-in-body', 'foreign-tag-in-group',
           'checksum-plus-256']


def all_lists(msg):
    """every item list of a message: [(where, list, section)]"""
    out = []

    def rec(items, where, depth):
        out.append((where if depth == 0 else where + '-group', items, depth))
        for it in items:
            if it.elems:
                for e in it.elems:
                    rec(e, where, depth + 1)
    rec(msg['header'], 'header', 0)
    rec(msg['body'], 'body', 0)
    rec(msg['trailer'], 'trailer', 0)
    return out


def apply_defect(rng, s, msg, defect, free):
    """mutates msg (Item tree) in place; returns (label or None if not applicable, post-render hook)"""
    I = fixgen.Item
    lists = all_lists(msg)
    body = msg['body']
    hdr_nums, trl_nums = set(s.header.nums()), set(s.trailer.nums())
    body_nums = set(s.messages[msg['msgtype']].nums())
    uval = lambda: bytes(rng.choice(b'ABCxyz019 =.') for _ in range(rng.randint(1, 12)))
    if defect == 'none':
        return 'none', None
    if defect == 'numeric-variants':
        n = 0
        for where, items, depth in lists:
            for it in items:
                f = s.by_num[it.num]
                if it.elems is None and f.base in ('int', 'float') and f.type not in ('LENGTH', 'NUMINGROUP') and not f.values and rng.random() < 0.6:
                    neg = it.text.startswith(b'-')
                    t = it.text[1:] if neg else it.text
                    t = b'0' * rng.randint(1, 3) + t
                    if f.base == 'float' and b'.' in t and rng.random() < 0.5:
                        t += b'0' * rng.randint(1, 2)
                    it.text = (b'-' if neg else b'') + t
                    n += 1
        return ('numeric-variants' if n else None), None
    if defect in ('unknown-tag', 'unknown-tag-after-mandatory', 'unknown-tag-last-in-body', 'long-tag-number'):
        tag = rng.choice(free) if defect != 'long-tag-number' else rng.choice([100000, 123456, 1000000, 99999999, 2147483647, 4294967295 + rng.randint(1, 9), 10 ** 9 + 7])
        if defect == 'unknown-tag':
            where, items, depth = rng.choice([l for l in lists if l[2] == 0])
            items.insert(rng.randint(0, len(items)), I(tag, uval()))
            return 'unknown-tag|' + where, None
        # after the last mandatory field of the body (or at its very end)
        sect = s.messages[msg['msgtype']]
        req = {m.num for m in sect.members if m.required}
        last = max([i for i, it in enumerate(body) if it.num in req] + [-1])
        pos = len(body) if defect == 'unknown-tag-last-in-body' else rng.randint(last + 1, len(body))
        body.insert(pos, I(tag, uval()))
        return defect, None
    if defect in ('unknown-tag-in-group', 'foreign-tag-in-group'):
        gl = [l for l in lists if l[2] > 0]
        if not gl:
            return None, None
        where, items, depth = rng.choice(gl)
        if defect == 'unknown-tag-in-group':
            tag = rng.choice(free)
        else:
            legal = hdr_nums | trl_nums | body_nums
            for _, sect in s.all_sections():
                pass
            cands = [n for n in s.by_num if n not in legal and n not in {it.num for it in items} and not _in_any_group_of(s, msg['msgtype'], n)]
            if not cands:
                return None, None
            tag = rng.choice(cands)
        items.insert(rng.randint(1, len(items)), I(tag, b'1'))
        return defect + '|' + where, None
    if defect == 'misplaced-known-tag':
        legal = hdr_nums | trl_nums | body_nums
        cands = [n for n in s.by_num if n not in legal and s.by_num[n].type in ('STRING', 'INT', 'CHAR', 'QTY', 'PRICE')]
        if not cands:
            return None, None
        sect = s.messages[msg['msgtype']]
        req = {m.num for m in sect.members if m.required}
        last = max([i for i, it in enumerate(body) if it.num in req] + [-1])
        pos = rng.randint(0, len(body)) if rng.random() < 0.5 else rng.randint(last + 1, len(body))
        body.insert(pos, I(rng.choice(cands), b'1'))
        return defect + ('|after-mandatory' if pos > last else '|before-mandatory'), None
    if defect == 'header-tag-in-body':
        cands = [n for n in hdr_nums if n not in body_nums and n not in (8, 9, 35) and n not in {it.num for it in msg['header']} and s.by_num[n].type in ('STRING', 'INT', 'CHAR', 'SEQNUM', 'BOOLEAN')]
        if not cands or not body:
            return None, None
        body.insert(rng.randint(1, len(body)), I(rng.choice(cands), b'Y' if True else b''))
        return defect, None
    if defect == 'body-tag-in-trailer':
        cands = [it for it in body if it.elems is None and it.num not in trl_nums and it.num not in hdr_nums]
        sect = s.messages[msg['msgtype']]
        req = {m.num for m in sect.members if m.required}
        cands = [it for it in cands if it.num not in req and s.by_num[it.num].type not in ('LENGTH', 'DATA', 'XMLDATA')]
        if not cands:
            return None, None
        it = rng.choice(cands)
        body.remove(it)
        msg['trailer'].append(it)
        return defect, None
    if defect == 'trailer-tag-in-body':
        cands = [n for n in trl_nums if n != 10 and s.by_num[n].type not in ('LENGTH', 'DATA')]
        if not cands or {it.num for it in msg['trailer']} & set(cands):
            return None, None
        body.insert(rng.randint(0, max(0, len(body) - 1)), I(rng.choice(cands), b'1'))
        return defect, None
    if defect in ('duplicate', 'duplicate-in-header'):
        items = msg['header'] if defect == 'duplicate-in-header' else body
        cands = [it for it in items if it.elems is None and s.by_num[it.num].type not in ('LENGTH', 'DATA', 'XMLDATA')]
        if not cands:
            return None, None
        it = rng.choice(cands)
        i = items.index(it)
        items.insert(rng.randint(i + 1, len(items)), I(it.num, it.text if rng.random() < 0.5 else it.text + b'1'))
        return defect, None
    if defect == 'missing-mandatory':
        pool = []
        for where, items, sect in (('header', msg['header'], s.header), ('body', body, s.messages[msg['msgtype']])):
            req = {m.num for m in sect.members if m.required}
            pool += [(where, items, it) for it in items if it.num in req and it.num not in (8, 9, 35)]
        if not pool:
            return None, None
        where, items, it = rng.choice(pool)
        if s.by_num[it.num].type == 'LENGTH':
            return None, None
        items.remove(it)
        return defect + '|' + where, None
    if defect == 'missing-mandatory-in-group':
        pool = []

        def rec(items, sect):
            mem = sect.by_num()
            for it in items:
                if it.elems:
                    g = mem[it.num].group
                    req = {m.num for m in g.members if m.required}
                    for e in it.elems:
                        pool.extend((e, x) for x in e[1:] if x.num in req and s.by_num[x.num].type != 'LENGTH')
                        rec(e, g)
        rec(body, s.messages[msg['msgtype']])
        if not pool:
            return None, None
        e, x = rng.choice(pool)
        e.remove(x)
        return defect, None
    if defect == 'element-missing-first-field':
        pool = []

        def rec2(items):
            for it in items:
                if it.elems:
                    for k, e in enumerate(it.elems):
                        if len(e) > 1:
                            pool.append((it, k, e))
                        rec2(e)
        rec2(body)
        rec2(msg['header'])
        if not pool:
            return None, None
        # a later element is only unambiguously "an element without its first field" when its first remaining tag already occurred in the
        # element before it (fix8 and the FIX specification delimit elements by the repetition of a tag) and no nested group could absorb it
        pool = [(it, k, e) for it, k, e in pool if k == 0 or (e[1].num in {x.num for x in it.elems[k - 1]} and not any(x.elems for x in it.elems[k - 1]))]
        if not pool:
            return None, None
        it, k, e = rng.choice(pool)
        del e[0]
        return defect + ('|first-element' if k == 0 else '|later-element'), None
    if defect == 'tag-plus-65536':
        where, items, depth = rng.choice(lists)
        cands = [it for it in items if it.elems is None and s.by_num[it.num].type not in ('LENGTH', 'DATA', 'XMLDATA')]
        if not cands:
            return None, None
        it = rng.choice(cands)
        sect_req = it.num
        it.num = it.num + 65536 * rng.choice([1, 1, 2, 3])
        return defect + '|' + where, None
    if defect == 'checksum-plus-256':
        # a 3-digit text that equals the right checksum only modulo 256 is a wrong checksum
        def hook256(b):
            ck = int(b[-4:-1])
            ks = [k for k in (1, 2, 3) if ck + 256 * k <= 999]
            if not ks:
                return b[:-4] + ('%03d' % ((ck + 1) % 256)).encode() + b'\x01'
            return b[:-4] + ('%03d' % (ck + 256 * rng.choice(ks))).encode() + b'\x01'
        return defect, hook256
    if defect == 'wrong-checksum':
        def hook(b):
            ck = int(b[-4:-1])
            return b[:-4] + ('%03d' % ((ck + rng.randint(1, 255)) % 256)).encode() + b'\x01'
        return defect, hook
    return None, None


def _in_any_group_of(s, mt, n):
    def rec(sect):
        for m in sect.members:
            if m.group and (n in m.group.nums() or rec(m.group)):
                return True
        return False
    return rec(s.messages[mt]) or rec(s.header)


def render_loose(msg, begin):
    """fixgen.render, but tolerant of tags that are not in the schema"""
    return fixgen.render(msg, begin)


def c04(tier, seed):
    c = Check('C04', tier, seed)
    exe = c.build('asan', ['codec_exec'])['codec_exec']
    sch = schemas()
    rng = random.Random(seed * 611953 + 4)
    total = 16000 if c.quick else 1000000
    batch = 50000
    gens = [fixgen.Gen(s, rng, max_str=14, opt_pct=30) for _, s, _ in sch]
    frees = [free_tags(s) for _, s, _ in sch]
    classes, verdicts = set(), {}
    done = 0
    samples = []
    while done < total:
        n = min(batch, total - done)
        entries, meta = [], {}
        for k in range(n):
            i = rng.randrange(len(sch))
            cn, s, pm = sch[i]
            mt = rng.choice(s.msg_order)
            msg = gens[i].message(mt)
            defect = DEFECTS[(done + k) % len(DEFECTS)]
            label, hook = apply_defect(rng, s, msg, defect, frees[i])
            if label is None:
                label, hook = apply_defect(rng, s, msg, rng.choice(['unknown-tag-after-mandatory', 'duplicate', 'wrong-checksum', 'tag-plus-65536']), frees[i])
                if label is None:
                    label = 'none'
            b = fixgen.render(msg, s.begin_string)
            if hook:
                b = hook(b)
            if len(b) > 8000:
                continue
            kk = len(entries)
            entries.append((cn, mt, b, label))
            meta[kk] = (cn, s, pm, label)
        obs = run_script(c, exe, raw_cases(entries, 'RAWDEC:noreenc'), len(entries), 'c04_%d' % done, per_case_timeout=2.0)
        for k, (cn, s, pm, label) in meta.items():
            o = obs.get(k)
            c.evaluations += 1
            if o is None or 'RAWDEC:noreenc' not in o.ops:
                continue
            st, pl = o.ops['RAWDEC:noreenc']
            b = entries[k][2]
            p, why = conformance(b, s, pm)
            ctxs = 'ctx=%s msg=%s defect=%s' % (cn, entries[k][1], label)
            vkey = ('conforming' if why is None else 'nonconforming') + '/' + ('accepted' if st == 'ok' else 'rejected')
            verdicts[vkey] = verdicts.get(vkey, 0) + 1
            classes.add(hash((cn, label, vkey)))
            if why is not None and why[0] == 'group-count-too-small':
                # a misplaced copy of a group's first field directly behind its last announced element: a further element under a count that
                # is too small, or a tag that is not defined at the enclosing level - the statement does not say which; no verdict either way
                c.stats['undecided_extra_group_element'] = c.stats.get('undecided_extra_group_element', 0) + 1
                continue
            if why is not None:
                if label in ('none', 'numeric-variants'):
                    c.inconclusive.append('generator/oracle disagreement: %s judged %s: %r' % (label, why, b[:200]))
                if st == 'ok':
                    c.add_violation('oracle:accepted-nonconforming|' + label, '%s: %s; input=%r decoded=%s' % (ctxs, why[1], b[:400], pl[:300]))
                continue
            # conforming
            if st != 'ok':
                if label in ('none', 'numeric-variants'):
                    c.stats['conforming_rejected'] = c.stats.get('conforming_rejected', 0) + 1   # acceptance of conforming messages is C01's business
                continue
            try:
                d = parse_dump(pl)
            except (ValueError, AssertionError, IndexError) as e:
                c.inconclusive.append('dump unparsable: %s %r' % (e, pl[:200]))
                continue
            r = tree_diff(s, d['H'], p['header'], 'header') or tree_diff(s, d['B'], p['body'], 'body') or tree_diff(s, d['T'], p['trailer'], 'trailer')
            if r:
                c.add_violation('oracle:accepted-content-differs|' + label, '%s: %s; input=%r' % (ctxs, r, b[:400]))
            if len(samples) < 4 and k % 7 == 3:
                samples.append({'defect': label, 'verdict': vkey, 'input': b[:300].decode('latin-1')})
        done += n
    c.hashes['defect_class_outcome'] = classes
    c.stats.update({'verdict_' + k: v for k, v in verdicts.items()})
    c.samples = samples
    c.rule = ('reference-rendered messages of both schemas with one injected defect out of 19 classes (unknown tag in header/body/trailer/group, unknown or '
              'misplaced tag AFTER the last mandatory field, header tag in body, body tag in trailer, trailer tag in body, duplicates, missing mandatory '
              'fields incl. inside elements, element without its first field, tag+65536k, 6-10 digit tags, wrong checksum, leading/trailing-zero '
              'numerics, none); an independent conformance predicate over the independent schema model decides each input; strict factory must '
              'throw on every non-conforming input, and every accepted message must contain exactly the input tokens (numeric equality by value); '
              'distinct = (schema, defect class, predicate verdict, factory verdict)')
    c.assumptions = ['only the stated direction is demanded: non-conforming => throws; accepted => faithful (acceptance of conforming input is C01)',
                     'field order inside a section and NumInGroup/element-count agreement are not among the stated conditions and are not varied']
    c.finish()


# ---------------------------------------------------------------------------------------------------------
# C05: permissive decoding passes unknown fields through

PLACES = ['header', 'header-end', 'body', 'body-end', 'trailer', 'between-elements', 'inside-element', 'element-end']


def insert_unknown(rng, s, msg, place, free):
    """insert 1..3 unknown tokens at the given kind of place; returns (label or None, inserted items)"""
    I = fixgen.Item
    n = rng.randint(1, 3)
    new = [I(rng.choice(free), bytes(rng.choice(b'ABCxyz019 =.:') for _ in range(rng.randint(1, 14)))) for _ in range(n)]

    def groups_of(items, acc):
        for it in items:
            if it.elems:
                acc.append(it)
                for e in it.elems:
                    groups_of(e, acc)
        return acc
    if place == 'header':
        if len(msg['header']) < 2:
            return None, new
        p = rng.randint(1, len(msg['header']) - 1)
        msg['header'][p:p] = new
    elif place == 'header-end':
        msg['header'].extend(new)
    elif place == 'body':
        if len(msg['body']) < 2:
            return None, new
        # not directly after a group: that position belongs to 'element-end'
        cand = [p for p in range(1, len(msg['body'])) if not msg['body'][p - 1].elems]
        if not cand:
            return None, new
        p = rng.choice(cand)
        msg['body'][p:p] = new
    elif place == 'body-end':
        if msg['body'] and msg['body'][-1].elems:
            return None, new
        msg['body'].extend(new)
    elif place == 'trailer':
        if msg['trailer'] and rng.random() < 0.5:
            msg['trailer'][0:0] = new
        else:
            msg['trailer'].extend(new)
    else:
        gs = groups_of(msg['body'], []) + groups_of(msg['header'], [])
        gs = [g for g in gs if len(g.elems) >= (2 if place == 'between-elements' else 1)]
        if not gs:
            return None, new
        g = rng.choice(gs)
        if place == 'between-elements':
            k = rng.randint(0, len(g.elems) - 2)
            g.elems[k].extend(new)
        elif place == 'inside-element':
            e = rng.choice([e for e in g.elems if len(e) >= 2] or [None])
            if e is None:
                return None, new
            p = rng.randint(1, len(e) - 1)
            e[p:p] = new
        else:
            g.elems[-1].extend(new)
    return place, new


def strip_unknown_tokens(toks, unknown_tags):
    return [t for t in toks if t[0] not in unknown_tags]


def c05(tier, seed):
    c = Check('C05', tier, seed)
    exe = c.build('asan', ['codec_exec'])['codec_exec']
    sch = schemas()
    rng = random.Random(seed * 15485863 + 5)
    total = 8000 if c.quick else 500000
    batch = 40000
    gens = [fixgen.Gen(s, rng, max_str=14, opt_pct=30) for _, s, _ in sch]
    frees = [free_tags(s) for _, s, _ in sch]
    classes = set()
    samples = []
    done = 0
    import copy
    while done < total:
        n = min(batch, total - done)
        entries, meta = [], {}
        for k in range(n):
            i = rng.randrange(len(sch))
            cn, s, pm = sch[i]
            mt = rng.choice(s.msg_order)
            msg = gens[i].message(mt)
            clean = fixgen.render(msg, s.begin_string)
            place = PLACES[(done + k) % len(PLACES)]
            label, new = insert_unknown(rng, s, msg, place, frees[i])
            if label is None:
                label, new = insert_unknown(rng, s, msg, rng.choice(['header-end', 'trailer']), frees[i])
            b = fixgen.render(msg, s.begin_string)
            if len(b) > 7800:
                continue
            kk = len(entries) // 2
            entries.append((cn, mt, clean, label))
            entries.append((cn, mt, b, label))
            meta[kk] = (cn, s, pm, label, {x.num for x in new}, len(new))
        lines = []
        for j, (cn, mt, raw, cls) in enumerate(entries):
            lines += ['CASE %d %s' % (j, cn), 'M ' + mt, 'CLASS ' + cls, 'RAW ' + raw.hex(), 'DO ' + ('RAWDEC:noreenc' if j % 2 == 0 else 'RAWDEC:perm'), 'END']
        obs = run_script(c, exe, lines, len(entries), 'c05_%d' % done, per_case_timeout=2.0)
        for kk, (cn, s, pm, label, utags, nu) in meta.items():
            o0, o1 = obs.get(2 * kk), obs.get(2 * kk + 1)
            c.evaluations += 1
            if o0 is None or o1 is None:
                continue
            clean, b = entries[2 * kk][2], entries[2 * kk + 1][2]
            ctxs = 'ctx=%s msg=%s place=%s' % (cn, entries[2 * kk][1], label)
            st0, ref = o0.ops.get('RAWDEC:noreenc', ('missing', ''))
            if st0 != 'ok':
                c.stats['clean_message_rejected_in_strict_mode'] = c.stats.get('clean_message_rejected_in_strict_mode', 0) + 1
                continue        # C01's business
            st1, got = o1.ops.get('RAWDEC:perm', ('missing', ''))
            classes.add(hash((cn, label, nu, st1)))
            if st1 != 'ok':
                c.add_violation('oracle:permissive-rejects-unknown-tag|' + label, '%s: %s; input=%r' % (ctxs, exc_text(got)[:120], b[:500]))
                continue
            try:
                dref, dgot = parse_dump(ref), parse_dump(got)
            except (ValueError, AssertionError, IndexError) as e:
                c.inconclusive.append('dump unparsable: %s' % e)
                continue
            bad = None
            for sec in 'HBT':
                # BodyLength (9) and CheckSum (10) legitimately differ between the clean and the extended message
                a = [x for x in dref[sec] if x[0] not in (9, 10)]
                g = [x for x in dgot[sec] if x[0] not in (9, 10)]
                if a != g:
                    i2 = 0
                    while i2 < min(len(a), len(g)) and a[i2] == g[i2]:
                        i2 += 1
                    bad = 'section %s differs from strict decoding at field index %d: strict %s, permissive %s' % (
                        sec, i2, [x[0] for x in a[i2:i2 + 4]], [x[0] for x in g[i2:i2 + 4]])
                    break
            if bad:
                c.add_violation('oracle:known-field-lost-or-changed|' + label, '%s: %s; input=%r' % (ctxs, bad, b[:500]))
                continue
            st2, re_hex = o1.ops.get('RAWDEC:perm-REENC', ('missing', ''))
            if st2 != 'ok':
                c.add_violation('oracle:reencode-failed|' + label, '%s: %s' % (ctxs, exc_text(re_hex)[:120]))
                continue
            w2 = unhex(re_hex)
            try:
                t_in = fixwire.tokenize(b, pm)
                t_out = fixwire.tokenize(w2, pm)
            except fixwire.WireError as e:
                c.add_violation('oracle:reencoded-bytes-malformed|' + label, '%s: %s; reencoded=%r' % (ctxs, e, w2[:400]))
                continue
            m_in = sorted((t[0], t[1]) for t in t_in if t[0] not in (9, 10))
            m_out = sorted((t[0], t[1]) for t in t_out if t[0] not in (9, 10))
            if m_in != m_out:
                lost = [x for x in m_in if x not in m_out]
                extra = [x for x in m_out if x not in m_in]
                kind = 'unknown-field-not-reemitted' if any(x[0] in utags for x in lost) else 'duplicated-or-altered-tokens'
                c.add_violation('oracle:%s|%s' % (kind, label), '%s: lost %s extra %s; input=%r reencoded=%r' % (ctxs, lost[:4], extra[:4], b[:300], w2[:300]))
                continue
            # frame of the re-encoding must be valid
            try:
                bl = int(t_out[1][1])
                if t_out[1][0] != 9 or t_out[-1][0] != 10 or bl != t_out[-1][2] - t_out[1][3] or int(t_out[-1][1]) != sum(w2[:t_out[-1][2]]) % 256:
                    raise ValueError
            except (ValueError, IndexError):
                c.add_violation('oracle:reencoded-frame-invalid|' + label, '%s: reencoded=%r' % (ctxs, w2[:300]))
                continue
            if len(samples) < 4 and kk % 11 == 5:
                samples.append({'place': label, 'input': b[:260].decode('latin-1')})
        done += n
    c.hashes['placement_class'] = classes
    c.samples = samples or [{'note': 'no passing case to sample'}]
    c.rule = ('conforming reference-rendered messages of both schemas + 1..3 tokens with tags absent from the dictionary (values incl. "=") inserted at 8 '
              'kinds of place (between header fields, end of header, inside body, end of body, trailer, between group elements, inside an element, '
              'end of the last element); permissive factory must accept, every known field must equal its strict-mode decoding of the clean message '
              '(dump trees compared), and the re-encoding must contain exactly the input tokens (multiset, data fields by length) with a valid '
              'BodyLength/CheckSum; distinct = (schema, placement, number of unknown tokens, outcome)')
    c.assumptions = ['the position at which unknown fields are re-emitted is not prescribed; tokens are compared as a multiset', 'tags 9 and 10 are checked for validity, not equality']
    c.finish()
