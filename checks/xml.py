"""C32: XML parser element-tree round trip and robustness on arbitrary bytes."""
from runner import Check


def c32(tier, seed):
    c = Check('C32', tier, seed)
    exe = c.build('asan', ['xml_tree'])['xml_tree']
    c.run_cases(exe, ['tree'], 6000 if c.quick else 300000, per_case_timeout=10, label='tree')
    c.run_cases(exe, ['bytes'], 320 if c.quick else 25000, per_case_timeout=60, label='bytes')
    c.evaluations = c.stats.get('trees', 0) + c.stats.get('byte_inputs', 0)
    c.extra['path_lookups'] = c.stats.get('lookups', 0)
    c.rule = ('trees of depth<=6, width<=6: tags, up to 4 attributes with any printable ASCII values, text in leaves; serialised with '
              'random legal spellings (markup characters as named / decimal / hex references, both quote styles, self-closing or '
              'explicit close, comments, declaration, blanks/tabs/line breaks between attributes) incl. values that contain '
              'reference-looking text; parsed tree compared node by node with the generator\'s tree; 12 path lookups per tree '
              '(hits, near misses, root-based, attribute filters) vs a reference matcher; then 200 mutated/random byte strings '
              '(<=4 KB) per case must yield a tree or XMLError under ASan/UBSan; distinct = distinct documents')
    c.assumptions = ['parser runs with XmlElement::noextensions (${env}/!{shell} are outside the property and would execute commands)',
                     'xi:include and the reserved attribute docpath are not generated; inputs containing "include" are skipped',
                     'text is generated in leaf elements only and without line breaks (printable characters)']
    c.finish()
