"""C13 / C14: generated schemas -> f8c (ASan build) -> g++ -> metadata read-back (meta_dump) and codec round trips (codec_exec)."""
import os
import random
import re
import subprocess
from concurrent.futures import ThreadPoolExecutor

import build as buildmod
from runner import Check, REPO, SAN_ENV, parse_sanitizer
import fixschema
import fixgen
import fixwire
import schemagen
from checks import codec as codecmod

# FIX type name -> FieldTrait::FieldType enumerator (the FIX data type names; two historical aliases)
ALIAS = {'MULTIPLEVALUESTRING': 'MultipleStringValue', 'UTCDATE': 'UTCDateOnly', 'QUANTITY': 'Qty', 'UTCTIME': 'UTCTimeOnly'}


def fieldtype_numbers():
    txt = open(os.path.join(REPO, 'include/fix8/traits.hpp')).read()
    body = txt[txt.index('enum FieldType'):]
    body = body[body.index('{') + 1:body.index('}')]
    nums, n = {}, 0
    for tok in body.replace('\n', ' ').split(','):
        tok = tok.strip()
        if not tok:
            continue
        if '=' in tok:
            name, _, rhs = tok.partition('=')
            nums[name.strip()] = nums[rhs.strip()]
            continue
        nums[tok] = n
        n += 1
    return {k[3:].lower(): v for k, v in nums.items() if k.startswith('ft_')}


def expected_sections(ref, ftnum):
    """path -> [(num, ftype, pos, mandatory, group)] from the independent model"""
    out = {}

    def sect(path, s):
        row = []
        for m in s.members:
            t = ALIAS.get(m.field.type, m.field.type).lower()
            row.append((m.num, ftnum.get(t, -1), m.pos, 1 if m.required else 0, 1 if m.group else 0))
        out[path] = row
        for m in s.members:
            if m.group:
                sect(path + '/' + str(m.num), m.group)
    sect('header', ref.header)
    sect('trailer', ref.trailer)
    for mt in ref.msg_order:
        sect(mt, ref.messages[mt])
    return out


def run_tool(exe, stdin, cwd, timeout=300):
    e = dict(os.environ)
    e.update(SAN_ENV)
    p = subprocess.run([exe], input=stdin.encode('latin-1'), stdout=subprocess.PIPE, stderr=subprocess.PIPE, cwd=cwd, env=e, timeout=timeout)
    return p.returncode, p.stdout.decode('latin-1'), p.stderr.decode('latin-1')


def one_schema(c, k, seed, kind, nmsgs_rt):
    """full pipeline for schema k; returns list of (key, detail), stats dict, hashes"""
    viol, stats = [], {}
    rng = random.Random(seed * 9176 + k)
    gdir = os.path.join(c.scratch, 'g%d' % k)
    os.makedirs(gdir, exist_ok=True)
    gen = schemagen.SchemaGen(rng)
    collide = None
    if kind == 'c14':
        collide = add_group_variants(gen, rng, k)
    gen.build()
    if collide:
        attach_variants(gen, rng, collide)
    xml = gen.xml()
    path = os.path.join(gdir, 'schema.xml')
    open(path, 'w').write(xml)
    ref = fixschema.Schema(path)
    tag = 'schema %d (%d fields, %d messages, %d components)' % (k, len(gen.fields), len(gen.messages), len(gen.components))
    res = buildmod.build_gen('asan', gdir, path)
    for case, cls, key, detail in parse_sanitizer(res.get('f8c_out', '')):
        viol.append((key + '|f8c', '%s: %s' % (tag, detail)))
    if res['f8c_rc'] != 0:
        viol.append(('oracle:f8c-rejects-valid-schema', '%s: rc=%s %s' % (tag, res['f8c_rc'], res['f8c_out'][-400:].replace('\n', ' / '))))
        return viol, stats, xml
    if not res['compile_ok']:
        viol.append(('oracle:generated-code-does-not-compile', '%s: %s' % (tag, res['compile_out'][-600:].replace('\n', ' / '))))
        return viol, stats, xml
    stats['schemas_compiled'] = 1
    if collide:
        stats['collision_family'] = collide.get('family', 0)
        # self-check of the re-implemented hash against the "hash: 0x..." comments f8c writes
        hdr = open(os.path.join(gdir, 'gen_classes.hpp')).read()
        seen = set(int(x, 16) for x in re.findall(r'hash: (0x[0-9a-f]+)', hdr))
        stats['hash_selfcheck_ok'] = 1 if all(h in seen for h in collide.get('hashes', [])) or not collide.get('hashes') else 0
    # ---- metadata read-back
    ftnum = fieldtype_numbers()
    q = []
    for num, name, typ, vals in gen.fields:
        q.append('F %d' % num)
        for v, d in vals:
            q.append('V %d %s' % (num, v.encode().hex()))
        if vals:
            q.append('V %d %s' % (num, ('~' if typ != 'INT' else '99999').encode().hex()))
    for mt in ref.msg_order:
        q.append('M ' + mt)
    rc, so, se = run_tool(res['meta_dump'], '\n'.join(q) + '\n', gdir)
    for case, cls, key, detail in parse_sanitizer(se):
        viol.append((key + '|meta_dump', '%s: %s' % (tag, detail)))
    if 'DONE' not in so:
        viol.append(('crash:meta_dump', '%s: rc=%s %s' % (tag, rc, se[-300:])))
        return viol, stats, xml
    N, E, M, S = {}, {}, {}, {}
    for line in so.splitlines():
        p = line.split(' ')
        if p[0] == 'N':
            N[int(p[1])] = (bytes.fromhex(p[2]).decode() if p[2] != '-' else None, int(p[3]), int(p[4]))
        elif p[0] == 'E':
            E[(int(p[1]), bytes.fromhex(p[2]).decode())] = (int(p[3]), bytes.fromhex(p[4]).decode() if p[4] != '-' else None)
        elif p[0] == 'M':
            M[p[1]] = (bytes.fromhex(p[2]).decode() if p[2] != '-' else None, int(p[3]))
        elif p[0] == 'S':
            S[p[1]] = [tuple(int(x) for x in ent.split(':')) for ent in p[2].split(',') if ent] if len(p) > 2 else []
        elif p[0] == 'X':
            viol.append(('oracle:metadata-readback-error', '%s: %s' % (tag, line)))
    used_nums = set()
    for _, sct in ref.all_sections():
        used_nums |= set(sct.nums())
    for num, name, typ, vals in gen.fields:
        if num not in used_nums:
            continue        # f8c leaves out fields that no message uses (by design; there is nothing to read back)
        got = N.get(num)
        stats['fields_checked'] = stats.get('fields_checked', 0) + 1
        if not got or got[0] != name:
            viol.append(('oracle:field-name-or-number-wrong', '%s: field %d %s -> %s' % (tag, num, name, got)))
            continue
        if bool(got[1]) != bool(vals) or (vals and got[2] != len(vals)):
            viol.append(('oracle:enumerated-domain-size-wrong', '%s: field %d %s has %d values, metadata says realm=%d size=%d' % (tag, num, name, len(vals), got[1], got[2])))
        for v, d in vals:
            e = E.get((num, v))
            stats['enum_values_checked'] = stats.get('enum_values_checked', 0) + 1
            if d is None:
                d = v       # no description attribute: the value stands for itself
            if not e or e[0] < 0 or e[1] != d:
                viol.append(('oracle:enumerated-value-or-description-wrong|' + typ, '%s: field %d value %r description %r -> %s' % (tag, num, v, d, e)))
        if vals:
            e = E.get((num, '~' if typ != 'INT' else '99999'))
            if e and e[0] >= 0:
                viol.append(('oracle:non-member-has-index|' + typ, '%s: field %d' % (tag, num)))
    exp = expected_sections(ref, ftnum)
    cats = {m[1]: 'app' for m in gen.messages}
    cats.update({m[1]: 'admin' for m in schemagen.ADMIN})
    names = {m[1]: m[0] for m in gen.messages}
    names.update({m[1]: m[0] for m in schemagen.ADMIN})
    for mt in ref.msg_order:
        got = M.get(mt)
        stats['messages_checked'] = stats.get('messages_checked', 0) + 1
        if not got or got[0] != names[mt]:
            viol.append(('oracle:message-missing-or-misnamed', '%s: msgtype %s name %s -> %s' % (tag, mt, names[mt], got)))
            continue
        if got[1] != (1 if cats[mt] == 'admin' else 0):
            viol.append(('oracle:admin-flag-wrong', '%s: msgtype %s is %s, is_admin()=%d' % (tag, mt, cats[mt], got[1])))
    for path, row in exp.items():
        got = S.get(path)
        stats['sections_checked'] = stats.get('sections_checked', 0) + 1
        if got is None:
            viol.append(('oracle:section-missing', '%s: %s' % (tag, path)))
            continue
        if [x[0] for x in got] != [x[0] for x in row]:
            kind2 = 'membership' if sorted(x[0] for x in got) != sorted(x[0] for x in row) else 'order'
            viol.append(('oracle:group-or-message-%s-wrong|%s' % (kind2, 'group' if '/' in path else 'top-level'),
                         '%s: %s compiled members %s, schema %s' % (tag, path, [x[0] for x in got], [x[0] for x in row])))
            continue
        for g, w in zip(got, row):
            if g[1] != w[1] and not (ref.by_num[g[0]].type == 'NUMINGROUP' and g[1] == ftnum['int']):   # count fields carry the base int type
                viol.append(('oracle:field-type-wrong', '%s: %s field %d compiled type %d, schema type %d (%s)' % (tag, path, g[0], g[1], w[1], ref.by_num[g[0]].type)))
            if g[3] != w[3] and g[0] not in (8, 9, 35, 10):     # the four framing fields are handled by the codec itself
                viol.append(('oracle:mandatory-flag-wrong', '%s: %s field %d compiled mandatory=%d, schema %d' % (tag, path, g[0], g[3], w[3])))
            if g[4] != w[4]:
                viol.append(('oracle:group-flag-wrong', '%s: %s field %d' % (tag, path, g[0])))
    # ---- round trips with the generated codec
    pairs = fixwire.data_pairs_map(ref)
    g = fixgen.Gen(ref, rng, max_str=16, opt_pct=45)
    lines, meta = [], {}
    apps = [m[1] for m in gen.messages]
    for j in range(nmsgs_rt):
        mt = apps[j % len(apps)]
        if collide and j < 4 * len(collide.get('messages', [])):
            mt = collide['messages'][j % len(collide['messages'])]
            g.force = set(collide.get('force', ()))
        msg = g.message(mt)
        g.force = set()
        lines.append('CASE %d gen' % j)
        lines += fixgen.script_lines(msg)
        lines += ['DO ENC DEC', 'END']
        meta[j] = ('gen', ref, pairs, msg)
    spath = os.path.join(gdir, 'rt.script')
    open(spath, 'w').write('\n'.join(lines) + '\n')
    e = dict(os.environ)
    e.update(SAN_ENV)
    p = subprocess.run([res['codec_exec'], '--script', spath, '--case-seconds', '120'], stdout=subprocess.PIPE, stderr=subprocess.PIPE, cwd=gdir, env=e, timeout=1800)
    so, se = p.stdout.decode('latin-1'), p.stderr.decode('latin-1')
    for case, cls, key, detail in parse_sanitizer(se):
        viol.append((key + '|generated-codec', '%s: %s' % (tag, detail)))
    obs = {}
    for line in so.splitlines():
        if not line.startswith('O '):
            continue
        parts = line.split(' ', 4)
        if len(parts) < 4 or not parts[1].isdigit():
            continue
        o = obs.setdefault(int(parts[1]), codecmod.Obs())
        o.ops[parts[2]] = (parts[3], parts[4] if len(parts) > 4 else '')
    sub = Check.__new__(Check)
    sub.__dict__.update(dict(violations=[], evaluations=0, hashes={}, stats={}, pid=c.pid))
    sub.add_violation = lambda key, detail, replay=None: sub.violations.append((key, detail))
    codecmod.check_roundtrip(sub, obs, meta)
    for key, detail in sub.violations:
        suffix = ''
        if collide:
            m = re.search(r'msg=(\S+)', detail)
            if m and m.group(1) in collide.get('messages', []):
                suffix = '|message-with-variant-group|' + collide.get('family_name', '')
        viol.append((key.replace('oracle:', 'oracle:roundtrip-') + suffix, '%s: %s' % (tag, detail[:500])))
    stats['round_trips'] = len(meta)
    stats['round_trips_missing_output'] = sum(1 for j in meta if j not in obs)
    if stats['round_trips_missing_output'] and not any('asan' in v[0] or 'ubsan' in v[0] for v in viol):
        viol.append(('crash:generated-codec', '%s: %d of %d round trips produced no output; %s' % (tag, stats['round_trips_missing_output'], len(meta), se[-300:])))
    return viol, stats, xml


# ---- C14: the same count field with different definitions

def add_group_variants(gen, rng, k):
    """reserve fields for two definitions of one count field; family 0 = random difference, 1 = constructed hash collision"""
    family = k % 3
    info = {'family': 1 if family else 0, 'family_name': ['random-definitions', 'constructed-hash-collision', 'constructed-prefix-collision'][family]}
    cname = 'NoVariant'
    gen.fields.append((gen.num(), cname, 'NUMINGROUP', []))
    if family == 0:
        names = []
        for i in range(5):
            nm = 'VarFld%d' % i
            gen.fields.append((gen.num(), nm, rng.choice(['INT', 'STRING', 'CHAR', 'PRICE']), []))
            names.append(nm)
        a = names[:rng.randint(1, 3)]
        b = [names[0]] + names[3:] if rng.random() < 0.5 else names[2:]
        info['defs'] = [a, b]
    elif family == 2:
        # {a,b} and {a,b,c,d} with equal hashes: d = L(L(h)^c^C) ^ C ^ h for h = hash{a,b}; search c until d is a usable field number
        L = lambda x: (x ^ (x >> 2) ^ ((x << 5) & 0xffffffff) ^ ((x << 13) & 0xffffffff)) & 0xffffffff
        C = 0x80001801
        found = None
        for _ in range(400):
            a = rng.randint(600, 1200)
            b = rng.randint(a + 1, 2500)
            if {a, b} & gen.used_nums:
                continue
            h = schemagen.group_hash([a, b])
            for c_ in range(b + 1, 30000):
                d = L(L(h) ^ c_ ^ C) ^ C ^ h
                if c_ < d < 60000 and not ({c_, d} & gen.used_nums):
                    found = (a, b, c_, d)
                    break
            if found:
                break
        if not found:
            return add_group_variants(gen, rng, 1)
        a, b, c_, d = found
        assert schemagen.group_hash([a, b]) == schemagen.group_hash([a, b, c_, d])
        info['hashes'] = [schemagen.group_hash([a, b])]
        for num in (a, b, c_, d):
            gen.used_nums.add(num)
            gen.fields.append((num, 'Col%d' % num, 'INT' if num == a else 'STRING', []))
        info['defs'] = [['Col%d' % a, 'Col%d' % b], ['Col%d' % a, 'Col%d' % b, 'Col%d' % c_, 'Col%d' % d]]
    else:
        # two-field definitions {a,b} and {a^1, b ^ L(1)} have equal structural hashes: L(x) = x ^ x>>2 ^ x<<5 ^ x<<13
        while True:
            a = rng.randrange(600, 900, 2)
            b = rng.randint(a + 10, 1900)
            a2, b2 = a ^ 1, b ^ 8225
            if b2 > a2 and len({a, b, a2, b2} & gen.used_nums) == 0 and b2 < 60000 and len({a, b, a2, b2}) == 4:
                break
        assert schemagen.group_hash([a, b]) == schemagen.group_hash([a2, b2])
        info['hashes'] = [schemagen.group_hash([a, b])]
        for num in (a, b, a2, b2):
            gen.used_nums.add(num)
            gen.fields.append((num, 'Col%d' % num, 'INT' if num in (a, a2) else 'STRING', []))
        info['defs'] = [['Col%d' % a, 'Col%d' % b], ['Col%d' % a2, 'Col%d' % b2]]
    info['count'] = cname
    return info


def attach_variants(gen, rng, info):
    """two extra messages, each using the count field with its own definition"""
    N = schemagen.Node
    info['messages'] = []
    for i, d in enumerate(info['defs']):
        members = [N('field', nm, 'Y' if j == 0 else 'N') for j, nm in enumerate(d)]
        nodes = [N('field', gen.plain[0], 'Y'), N('group', info['count'], 'Y', members)]
        mt = 'V' + 'XY'[i]
        gen.messages.append(('Variant%d' % i, mt, nodes))
        info['messages'].append(mt)
    nums = {f[1]: f[0] for f in gen.fields}
    info['force'] = {nums[n] for d in info['defs'] for n in d} | {nums[info['count']]}


def run_family(c, kind, nschemas, nmsgs_rt):
    buildmod.build('asan', ['codec_exec'])      # f8c + runtime library built once, before the parallel part
    samples = []

    def job(k):
        try:
            return k, one_schema(c, k, c.seed, kind, nmsgs_rt)
        except subprocess.TimeoutExpired as e:
            return k, ([('hang|generated-pipeline', 'schema %d: %s' % (k, e))], {}, '')
    with ThreadPoolExecutor(max_workers=6) as ex:
        for k, (viol, stats, xml) in ex.map(job, range(nschemas)):
            for key, detail in viol:
                c.add_violation(key, detail, {'schema_xml': xml[:20000]})
            for s, v in stats.items():
                c.stats[s] = c.stats.get(s, 0) + v
            c.hashes.setdefault('schema', set()).add(hash(xml))
            if len(samples) < 2 and xml:
                samples.append({'schema': k, 'xml_head': xml[xml.find('<messages>'):][:500]})
    c.samples = samples


def c13(tier, seed):
    c = Check('C13', tier, seed)
    run_family(c, 'c13', 12 if c.quick else 200, 150 if c.quick else 1000)
    c.evaluations = c.stats.get('fields_checked', 0) + c.stats.get('sections_checked', 0) + c.stats.get('round_trips', 0) + c.stats.get('enum_values_checked', 0)
    c.rule = ('random structured schemas (22 field types with and without enumerated values, 8..40 extra fields incl. custom numbers >= 5000, '
              'Length/data pairs, 3..15 application messages + the 7 administrative ones, components nested and reused, repeating groups nested '
              'up to 3 and reused) -> f8c built with ASan/UBSan -> g++ -> metadata read back by reflection (field numbers, names, realm sizes, '
              'every enumerated value and description, message names/types/admin flags, per message and per nested group: members, order, '
              'types, mandatory and group flags) compared with an independent parse of the same XML -> C01-style round trips of messages of '
              'that schema through the generated codec; evaluations = metadata items + round trips; distinct = schemas')
    c.assumptions = ['TZTIMEONLY/TZTIMESTAMP are not generated (their print routine is an empty stub: not a supported type in the sense of a round trip)',
                     'header/trailer and the administrative messages are the standard ones in every generated schema']
    c.finish()


def c14(tier, seed):
    c = Check('C14', tier, seed)
    run_family(c, 'c14', 10 if c.quick else 150, 80 if c.quick else 600)
    c.evaluations = c.stats.get('round_trips', 0)
    c.extra['constructed_collision_schemas'] = c.stats.get('collision_family', 0)
    c.extra['hash_selfcheck_ok'] = c.stats.get('hash_selfcheck_ok', 0)
    c.rule = ('C13\'s pipeline on schemas in which one count field (NoVariant) is used by two messages with different member fields: family '
              '"random-definitions" (different random member sets) and family "constructed-hash-collision" (two-field definitions {a,b} and '
              '{a^1, b^8225}, which the compiler\'s structural hash - re-implemented here and self-checked against the hash comments f8c emits - '
              'maps to the same value); both messages are built with their own group members, encoded, decoded and re-encoded; metadata of both '
              'group definitions is read back; evaluations = round trips; distinct = schemas')
    c.assumptions = ['if the re-implemented hash disagrees with the compiler\'s emitted hashes the collision family is reported as such in the evidence (hash_selfcheck_ok) and is no alarm']
    c.finish()
