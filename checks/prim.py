"""C07 C08 C09 C10 C12: micro-monitors over the real primitives (harness/prim_exec.cpp)."""
import os

from runner import Check, REPO, NCPU
import fixschema

SCHEMAS = [('utest', 'schema/FIX42UTEST.xml'), ('f44', 'schema/FIX44.xml')]


def load_schemas():
    return [(n, fixschema.Schema(os.path.join(REPO, p))) for n, p in SCHEMAS]


def c07(tier, seed):
    c = Check('C07', tier, seed)
    exe = c.build('asan', ['prim_exec'])['prim_exec']
    cases = 160 if c.quick else 16000
    c.run_cases(exe, ['chksum'], cases, per_case_timeout=30)
    c.evaluations = c.stats.get('calls', 0)
    c.rule = ('calc_chksum(buf,sz,off,len) on exact-size heap buffers (ASan red zones) vs naive byte sum; every 8th case '
              'enumerates all (sz,off,len) with sz<=40, others draw sizes around multiples of 4/8/256 up to 20000 with '
              '0xFF/0x80/high-bit/random fills; distinct = distinct (sz,off,len,fill) geometries')
    c.samples = [{'sz': 513, 'off': 7, 'len': -1, 'fill': 'all 0xFF', 'oracle': 'sum(buf[7:513]) & 0xff'},
                 {'enumerated': 'all sz<=40, 0<=off<=sz, len in {-1, 0..sz-off}', 'both_overloads': True}]
    c.assumptions = ['len=-1 means "to the end of the buffer"; off+len<=sz is a precondition',
                     'ASan red zones detect only reads adjacent to the exact-size buffer']
    c.finish()


def c08(tier, seed):
    c = Check('C08', tier, seed)
    exe = c.build('asan', ['prim_exec'])['prim_exec']
    c.run_cases(exe, ['ints'], 16 if c.quick else 64, per_case_timeout=120, label='ints')
    c.run_cases(exe, ['floats'], 100 if c.quick else 3400, per_case_timeout=60, label='floats')
    if not c.quick:
        # all 2^32 ints, plain flavour, 64 slices
        pexe = c.build('plain', ['prim_exec'])['prim_exec']
        import runner
        from concurrent.futures import ThreadPoolExecutor
        slices = 64
        step = (1 << 32) // slices

        def one(i):
            lo = -(1 << 31) + i * step
            hi = lo + step - 1
            rc, so, se, to, dt = c.run_proc([pexe, 'ints', '--lo', str(lo), '--hi', str(hi)], timeout=1800)
            w = runner.WorkerOut()
            runner.parse_stdout(so, w)
            w.rc, w.stderr, w.timeout, w.cmd = rc, se, to, [pexe, 'ints', '--lo', str(lo), '--hi', str(hi)]
            w.san = []
            return w
        with ThreadPoolExecutor(max_workers=NCPU) as ex:
            outs = list(ex.map(one, range(slices)))
        c.absorb(outs, pexe, ['ints'], 'ints-exhaustive')
        if c.stats.get('exhaustive_slice', 0) == slices:
            c.extra['int32_exhaustive'] = True
    c.evaluations = c.stats.get('ints', 0) + c.stats.get('floats', 0) + c.stats.get('intfields', 0)
    c.rule = ('ints: itoa vs snprintf, fast_atoi(itoa(v))==v over boundaries, |v|<2^17, random magnitudes (thorough: all 2^32); '
              'floats: modp_dtoa(v,p) checked with exact 128-bit rational arithmetic for correct rounding (ties: either '
              'neighbour), fast_atof(text) within half a unit of the last decimal place or one of the two doubles adjacent '
              'to the text value; classes random-bits/decimal/near-tie/integer/rollover/tiny/near-2^31; '
              'distinct = distinct (bit pattern, precision) pairs and distinct ints sampled')
    c.samples = [{'v': '0.95', 'p': 1, 'class': 'near-tie'}, {'v': -2147483648, 'text': '-2147483648'},
                 {'v': '(k+0.5)/10^p +- 3 ulp', 'p': '0..9'}]
    c.assumptions = ['"half a unit in the last place" read as: last decimal place of the text, or adjacent double where the '
                     'double grid is coarser', 'sign of a zero result is not demanded']
    c.finish()


def c09(tier, seed):
    c = Check('C09', tier, seed)
    exe = c.build('asan' if c.quick else 'plain', ['prim_exec'])['prim_exec']
    # 186 blocks of 256 days cover every day 1970..2099 once
    cases = 186 if c.quick else 186 * 24
    c.run_cases(exe, ['dates'], cases, per_case_timeout=60)
    c.evaluations = c.stats.get('renderings', 0) + c.stats.get('parses', 0) + c.stats.get('logstamps', 0)
    c.exhaustive = False
    c.extra['all_days_1970_2099_covered'] = len(c.hashes.get('day', ())) == 47482
    c.rule = ('every day 1970-01-01..2099-12-31 x {0,59,3599,43200,86399}s x {0,1,500,999}ms, 24 special days x whole hours of '
              'seconds and all 1000 ms values, random instants; UTCTimestamp/UTCTimeOnly/UTCDateOnly/LocalMktDate/MonthYear '
              'render+parse vs an independent civil-calendar algorithm; GetTimeAsStringMS with dplaces 0..9 incl. fractions '
              '>= .9999995; distinct = distinct days')
    c.samples = [{'instant': '2038-01-19 03:14:08.000', 'types': 'all'}, {'instant': '2099-12-31 23:59:59.999'},
                 {'logstamp': 'sec=59 nsec=999999999 dplaces=6'}]
    c.assumptions = ['TZ=UTC for local-time log stamps']
    c.finish()


def write_realm_table(path, maxfields=None):
    n = 0
    with open(path, 'w') as f:
        for cname, sch in load_schemas():
            # a message where the field is a direct body member, for the printer path
            home = {}
            for mt in sch.msg_order:
                for m in sch.messages[mt].members:
                    if not m.group:
                        home.setdefault(m.num, mt)
            used = set()
            for _, sect in sch.all_sections():
                used.update(sect.nums())
            for num in sorted(sch.by_num):
                fld = sch.by_num[num]
                if not fld.values or num not in used:   # f8c emits only fields some message uses
                    continue
                f.write('F %s %d %s %s %s\n' % (cname, num, fld.base, fld.type, home.get(num, '-')))
                for e, d in fld.values:
                    f.write('V %s %s\n' % (e.encode('latin-1').hex(), (d or '').encode('latin-1').hex() or '00'))
                n += 1
    return n


def c10(tier, seed):
    c = Check('C10', tier, seed)
    exe = c.build('asan', ['prim_exec'])['prim_exec']
    tab = os.path.join(c.scratch, 'realms.tab')
    n = write_realm_table(tab)
    c.run_cases(exe, ['realm', '--table', tab, '--maxlen', '3' if c.quick else '4'], n, per_case_timeout=120)
    c.evaluations = c.stats.get('realm_probes', 0)
    c.rule = ('every field with <value> children in FIX42UTEST and FIX44 (independent XML parse): chars: all 255 byte values; '
              'ints: [min-50,max+50]; strings: members, members +/- one char, all strings up to length 3 (thorough 4) over the '
              'members\' alphabet and its neighbours; floats: members +/- eps; get_rlm_idx/description, RealmBase::is_valid and '
              'MessageBase::print_field compared with set membership; distinct = distinct (schema, field)')
    c.samples = [{'field': 'Side(54)', 'probe': 'A', 'expect': 'no index, no description, is_valid false'},
                 {'field': 'OrdType(40)', 'probe': '1', 'expect': 'index of "1", description MARKET'}]
    c.assumptions = ['stock schemas contain only set domains; range domains are exercised in C13\'s generated schemas',
                     'MULTIPLE*VALUE fields are probed with single tokens only']
    c.finish()


def write_lookup_table(path):
    with open(path, 'w') as f:
        for cname, sch in load_schemas():
            f.write('X %s\n' % cname)
            used = set()

            def sect(msg, gpath, s):
                f.write('S %s %s %d\n' % (msg, ','.join(map(str, gpath)) or '-', len(s.members)))
                for m in s.members:
                    used.add(m.num)
                    # 8/9/35/10 are added by the framework itself ("automatic"), their mandatory flag is not demanded
                    mand = 2 if (msg in ('header', 'trailer') and not gpath and m.num in (8, 9, 35, 10)) else (1 if m.required else 0)
                    f.write('m %d %d %d %d\n' % (m.num, m.pos, mand, 1 if m.group else 0))
                for m in s.members:
                    if m.group:
                        sect(msg, gpath + [m.num], m.group)
            import io
            buf = io.StringIO()
            real_f = f
            f = buf
            sect('header', [], sch.header)
            sect('trailer', [], sch.trailer)
            for mt in sch.msg_order:
                sect(mt, [], sch.messages[mt])
            f = real_f
            for mt in sch.msg_order:
                f.write('M %s %s\n' % (mt, sch.messages[mt].name))
            # f8c emits only fields that are used by some message
            for num in sorted(sch.by_num):
                if num in used:
                    f.write('F %d %s\n' % (num, sch.by_num[num].name))
            f.write(buf.getvalue())
    return 2


def c12(tier, seed):
    c = Check('C12', tier, seed)
    exe = c.build('asan', ['prim_exec'])['prim_exec']
    tab = os.path.join(c.scratch, 'lookup.tab')
    nctx = write_lookup_table(tab)
    cases = nctx + (100 if c.quick else 5000)
    c.run_cases(exe, ['lookup', '--table', tab], cases, per_case_timeout=300)
    c.evaluations = c.stats.get('lookup_keys', 0) + c.stats.get('pset_ops', 0)
    c.rule = ('all 65536 tags on find_be/_be.find_ptr and on the field-trait set (has/getPos/mandatory/group/find) of one live '
              'instance of every message, header, trailer and nested group of FIX42UTEST and FIX44 vs the independent schema '
              'model; message types, long names and near misses on find_bme/reverse_find_*; random insert/find/at/clear '
              'histories (<=200 ops) on both presorted_set templates vs std::set under ASan; distinct = sections + op-kind '
              'sequences of histories')
    c.samples = [{'section': 'f44 D/NoPartyIDs(453)/NoPartySubIDs(802)', 'keys': '0..65535'},
                 {'history': 'insert 17, insert 5, find 5, at 1, clear, insert 9 ...'}]
    c.assumptions = ['f8c emits only fields used by at least one message, header or trailer']
    c.finish()
