"""C15: socket reader framing."""
from runner import Check


def c15(tier, seed):
    c = Check('C15', tier, seed)
    exe = c.build('asan', ['reader_frame'])['reader_frame']
    n = 600 if c.quick else 30000
    c.run_cases(exe, [], n, per_case_timeout=40, workers=16)
    if not c.quick:
        texe = c.build('tsan', ['reader_frame'])['reader_frame']
        c.run_cases(texe, [], 1200, per_case_timeout=60, workers=16, label='tsan')
    inc = [v for v in c.violations if v.key.startswith('inconclusive:')]
    if inc:
        c.violations = [v for v in c.violations if not v.key.startswith('inconclusive:')]
        c.inconclusive.append('%d streams: reader still running 20 s after end of stream (watchdog, not a verdict)' % len(inc))
    c.evaluations = c.stats.get('messages_framed', 0)
    c.distinct_names = ['stream']
    c.rule = ('a real ServerConnection (pm_thread and pm_pipeline alternating) on loopback TCP; a feeder thread writes streams of 0..40 valid '
              'messages (body sizes 1..8164, edge sizes around 1/2/3/4-digit BodyLength) in 6 chunkings (byte by byte, 1..7, 1..64, 1..3000, '
              'whole stream, 1-byte/8..20-byte alternation that splits "8=", the BodyLength digits and the checksum) with yields and micro-sleeps, '
              'optionally followed by one of 11 preamble corruptions (wrong BeginString same/longer length, BodyLength non-numeric / 0 / oversized '
              '/ 20..9000-digit run / unterminated, first field not tag 8, garbage, over-long first tag, over-long BeginString value); '
              'Session::process is overridden to record; oracle: valid streams are handed on exactly, byte-identical and in order; after a '
              'corrupt preamble nothing but valid messages preceding it is handed on and the reader stops; ASan/UBSan; evaluations = messages framed')
    c.assumptions = ['a valid stream stays open until everything was handed on: the fate of queued messages at disconnect is outside the statement',
                     'the 20 s wait for the reader to stop is a watchdog (inconclusive when it fires)']
    c.finish()
