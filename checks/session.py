"""C16 C17 C18 C19 C20 C22 C23: one real Session in harness/session_sim (pm_coro, loopback TCP, virtual clock) driven interactively;
independent FIX session models in python decide the recorded histories."""
import os
import random
import re
from concurrent.futures import ProcessPoolExecutor

from runner import Check, parse_sanitizer, NWORK
from simproc import SimProc, SimDied
import fixmsg as F

BEGIN = 'FIX.4.2'
T0 = 1700000000000      # virtual epoch (ms)
HDR = (8, 9, 35, 49, 56, 34, 43, 97, 52, 122, 10)


class Resp:
    def __init__(self, lines):
        self.lines = lines
        self.outs, self.events, self.ret, self.exc, self.q = [], [], None, None, {}
        self.rest = b''
        for l in lines:
            if l.startswith('W '):
                ms, rest = F.split_stream(bytes.fromhex(l[2:]))
                self.outs += [F.M(m) for m in ms]
                self.rest = rest
            elif l[:2] in ('R ', 'S ', 'T '):
                self.ret = int(l[2:])
            elif l.startswith('EXC '):
                self.exc = l[4:]
            elif l.startswith('Q '):
                self.q = dict(x.split('=', 1) for x in l[2:].split(' '))
            elif l.startswith(('APP ', 'DELIV ', 'STATE ', 'START ', 'G ', 'SID ')):
                self.events.append(l)

    def delivered(self):
        return [e.split(' ')[1:] for e in self.events if e.startswith('DELIV ')]

    def apps(self):
        return [e.split(' ')[1:] for e in self.events if e.startswith('APP ')]


class Sess:
    """one simulated session + the peer's view of the conversation"""

    def __init__(self, sim, rng):
        self.sim, self.rng = sim, rng
        self.now = T0
        self.wire = []          # every outbound message (M), in order
        self.step = 0
        self.peer_seq = 1       # next MsgSeqNum the peer will use
        self.cfg = {}
        self.sim.cmd('WIPE')
        self.sim.cmd('CLOCK %d' % (self.now // 1000))

    def _do(self, line):
        r = Resp(self.sim.cmd(line))
        self.step += 1
        for m in r.outs:
            m.step = self.step
            self.wire.append(m)
        return r

    def new(self, role, sci, tci, hb=30, persist='file', enforce=1, clients='-', resetflag=0, sendseq=0, recvseq=0, purge=0):
        self.cfg = dict(role=role, sci=sci, tci=tci, hb=hb, persist=persist, enforce=enforce, clients=clients, resetflag=resetflag)
        return self._do('NEW role=%s sci=%s tci=%s hb=%d persist=%s enforce=%d clients=%s resetflag=%d sendseq=%d recvseq=%d purge=%d' % (
            role, sci, tci, hb, persist, enforce, clients, resetflag, sendseq, recvseq, purge))

    def adv(self, ms):
        self.now += ms
        self.sim.cmd('ADV %d' % ms)

    def inject(self, raw):
        return self._do('IN ' + raw.hex())

    def peer_msg(self, mtype, body=(), seq=None, **kw):
        """a message from the peer with its next sequence number (unless given)"""
        if seq is None:
            seq = self.peer_seq
            self.peer_seq += 1
        return F.msg(BEGIN, mtype, seq, kw.pop('sender', self.cfg['tci']), kw.pop('target', self.cfg['sci']), kw.pop('now', self.now), body, **kw)

    def send(self, ident):
        return self._do('SEND ' + ident)

    def batch(self, ids):
        return self._do('BATCH ' + ' '.join(ids))

    def hb(self):
        return self._do('HB')

    def testreq(self, ident):
        return self._do('TESTREQ ' + ident)

    def tick(self):
        return self._do('TICK')

    def q(self):
        return Resp(self.sim.cmd('Q')).q

    def get(self, n):
        for l in self.sim.cmd('GET %d' % n):
            if l.startswith('G '):
                p = l.split(' ')
                return None if len(p) < 3 or p[2] == 'none' else bytes.fromhex(p[2])
        return None

    def close(self):
        self.sim.cmd('CLOSE')

    def order(self, ident, **kw):
        return self.peer_msg('D', [(11, ident), (21, 1), (55, 'S'), (54, 1), (60, F.ts(self.now)), (40, 1)], **kw)

    def logon(self, hb=30, reset=False, **kw):
        body = [(98, 0), (108, hb)]
        if reset:
            body.append((141, 'Y'))
        return self.peer_msg('A', body, **kw)

    def handshake(self, r_new, hb=30):
        """complete the logon; returns the session's Logon message (M) or None"""
        if self.cfg['role'] == 'I':
            lg = [m for m in r_new.outs if m.type == 'A']
            r = self.inject(self.logon(hb))
            return lg[0] if lg else None
        r = self.inject(self.logon(hb))
        lg = [m for m in r.outs if m.type == 'A']
        return lg[0] if lg else None


# ---------------------------------------------------------------------------------------------------------
# worker plumbing

class Out:
    def __init__(self):
        self.viol, self.stats, self.hashes, self.samples, self.inconclusive = [], {}, {}, [], []
        self.evals = 0

    def v(self, key, detail, sess=None):
        if sum(1 for k, _, _ in self.viol if k == key) < 4:
            self.viol.append((key, detail, list(sess.sim.log) if sess else []))
        else:
            self.stats['more:' + key] = self.stats.get('more:' + key, 0) + 1

    def stat(self, k, n=1):
        self.stats[k] = self.stats.get(k, 0) + n

    def distinct(self, name, h):
        s = self.hashes.setdefault(name, set())
        if len(s) < 200000:
            s.add(h)


def _worker(args):
    fn_name, exe, scratch, seed, lo, hi, extra = args
    fn = globals()[fn_name]
    out = Out()
    wdir = os.path.join(scratch, 'w%d' % lo)
    sim = SimProc(exe, ['--dir', wdir], wdir)
    died = 0
    retried = set()
    n = lo - 1
    while n + 1 < hi:
        n += 1
        rng = random.Random(seed * 1000003 + n)
        try:
            sim.begin_case(n)
            fn(out, sim, rng, n, extra)
            out.evals += 1
        except SimDied as e:
            err = sim.stderr_text()
            san = parse_sanitizer(err)
            if not san and n not in retried:
                # no sanitizer report: most likely the 60 s per-case alarm on a loaded machine; the history is deterministic, run it once more
                retried.add(n)
                out.stat('harness_deaths_retried')
                try:
                    os.unlink(sim.errpath)
                except OSError:
                    pass
                sim.restart()
                n -= 1
                continue
            died += 1
            out.stat('harness_deaths')
            if san:
                i = err.find('ERROR: AddressSanitizer')
                for case, cls, key, detail in san[-3:]:
                    out.viol.append((key, 'case %d: %s || %s' % (n, detail, re.sub(r'\s+', ' ', err[i:i + 3500]) if i >= 0 else ''), list(sim.log)))
            else:
                tail = err[-400:].replace('\n', ' / ')
                out.viol.append(('crash|session_sim|' + ('hang' if 'Alarm' in tail else 'died'), 'case %d at command %r: %s' % (n, str(e)[:80], tail), list(sim.log)))
            try:
                os.unlink(sim.errpath)
            except OSError:
                pass
            if died > 25:
                out.inconclusive.append('too many harness deaths; cases %d..%d not explored' % (n + 1, hi))
                break
            sim.restart()
    err = sim.stderr_text()
    sim.close()
    for case, cls, key, detail in parse_sanitizer(err):
        i = err.find('ERROR: AddressSanitizer')
        out.viol.append((key, 'case %s: %s || %s' % (case, detail, re.sub(r'\s+', ' ', err[i:i + 2500]) if i >= 0 else ''), []))
    return out


def drive(c, fn_name, ncases, extra=None, workers=NWORK, flavour='asan'):
    exe = c.build(flavour, ['session_sim'])['session_sim']
    workers = max(1, min(workers, ncases))
    bounds = [(ncases * i // workers, ncases * (i + 1) // workers) for i in range(workers)]
    jobs = [(fn_name, exe, c.scratch, c.seed, lo, hi, extra) for lo, hi in bounds]
    with ProcessPoolExecutor(max_workers=workers) as ex:
        for o in ex.map(_worker, jobs):
            for key, detail, script in o.viol:
                c.add_violation(key, detail, {'harness': 'session_sim', 'script': script} if script else None)
            for k, v in o.stats.items():
                c.stats[k] = c.stats.get(k, 0) + v
            for k, v in o.hashes.items():
                c.hashes.setdefault(k, set()).update(v)
            for s in o.samples:
                if len(c.samples) < 6:
                    c.samples.append(s)
            c.inconclusive += o.inconclusive
            c.evaluations += o.evals


def vis(m):
    return repr(m)[:400]


# ---------------------------------------------------------------------------------------------------------
# C16 / C17: outbound numbering, control record, store == wire

def is_gapfill(m):
    return m.type == '4' and m.get(123) == 'Y'


def new_messages(wire):
    return [m for m in wire if not m.possdup and not is_gapfill(m)]


def hist_c16(out, sim, rng, n, extra):
    s = Sess(sim, rng)
    role = rng.choice('AI')
    persist = rng.choice(['file', 'file', 'mem']) if not (extra or {}).get('persist') else extra['persist']
    sendseq = rng.choice([0, 0, 0, rng.randint(2, 60)])
    recvseq = 0 if role == 'A' else rng.choice([0, 0, rng.randint(2, 40)])
    if recvseq:
        s.peer_seq = recvseq
    hb = 30
    r = s.new(role, 'SRV' if role == 'A' else 'CLI', 'CLI' if role == 'A' else 'SRV', hb, persist, sendseq=sendseq, recvseq=recvseq, purge=1)
    s.handshake(r, hb)
    expect_next = sendseq or 1          # model of the next new outbound number
    sent = {}                           # n -> M of new messages
    ops = []
    ident = 0
    stored_expect = {}                  # n -> raw (application) / None (admin)
    nsteps = rng.randint(5, 60)
    restarts = 0

    def account(label):
        """classify what went on the wire since the last call; check numbering; check control record at this quiescent point"""
        nonlocal expect_next
        for m in s.wire[account.pos:]:
            if not m.frame_ok():
                out.v('oracle:outbound-frame-invalid', 'case %d after %s: %s' % (n, label, vis(m)), s)
            if is_gapfill(m):
                try:
                    if int(m.get(36)) > expect_next:
                        expect_next = int(m.get(36))
                        out.stat('gapfills_advancing_the_numbering')
                except (TypeError, ValueError):
                    pass
                continue
            if m.possdup:
                continue
            if m.seq != expect_next:
                kind = 'reused' if m.seq in sent else 'gap-or-wrong-start'
                out.v('oracle:new-message-number-%s|%s' % (kind, label), 'case %d role=%s persist=%s: new %s carries 34=%s, expected %d; ops=%s' % (
                    n, role, persist, m.type, m.seq, expect_next, ops[-8:]), s)
                expect_next = (m.seq or expect_next)
            sent[m.seq] = m
            stored_expect[m.seq] = m.raw if m.type == 'D' else None
            expect_next += 1
        account.pos = len(s.wire)
        q = s.q()
        out.stat('quiescent_points')
        if q.get('shutdown') == '1':
            return False
        if int(q['send']) != expect_next:
            out.v('oracle:session-next-send-differs-from-wire|' + label, 'case %d: session says next send %s, wire implies %d; ops=%s' % (n, q['send'], expect_next, ops[-8:]), s)
            expect_next = int(q['send'])
        if int(q['recv']) != s.peer_seq:
            out.v('oracle:session-next-receive-differs|' + label, 'case %d: session expects %s, peer will send %d; ops=%s' % (n, q['recv'], s.peer_seq, ops[-8:]), s)
            return False
        if persist != 'none' and q['control'] != '%s,%s' % (q['send'], q['recv']):
            out.v('oracle:control-record-differs|' + label, 'case %d role=%s persist=%s: control record %s, session counters %s,%s; ops=%s' % (
                n, role, persist, q['control'], q['send'], q['recv'], ops[-8:]), s)
        return True
    account.pos = 0
    if not account('logon'):
        out.v('oracle:logon-failed', 'case %d role=%s: session not established: %s' % (n, role, s.q()), s)
        return
    for step in range(nsteps):
        k = rng.random()
        if k < 0.22:
            ident += 1
            ops.append('send')
            s.send('o%d_%d' % (n, ident))
            ok = account('app-send')
        elif k < 0.36:
            cnt = rng.randint(2, 6)
            ids = []
            for _ in range(cnt):
                ident += 1
                ids.append('o%d_%d' % (n, ident))
            ops.append('batch%d' % cnt)
            s.batch(ids)
            ok = account('batch-send')
        elif k < 0.46:
            ops.append('hb-send')
            s.hb()
            ok = account('admin-send')
        elif k < 0.58:
            ops.append('in-hb')
            s.inject(s.peer_msg('0'))
            ok = account('inbound-heartbeat')
        elif k < 0.68:
            ops.append('in-testreq')
            s.inject(s.peer_msg('1', [(112, 'T%d' % step)]))
            ok = account('inbound-test-request')
        elif k < 0.80:
            ident += 1
            ops.append('in-app')
            s.inject(s.order('p%d_%d' % (n, ident)))
            ok = account('inbound-application')
        elif k < 0.90 and sent:
            lo = rng.randint(min(sent), max(sent))
            hi = rng.choice([0, rng.randint(lo, max(sent))])
            ops.append('in-resend[%d,%d]' % (lo, hi))
            s.inject(s.peer_msg('2', [(7, lo), (16, hi)]))
            ok = account('inbound-resend-request')
        elif k >= 0.96 and restarts < 2 and s.peer_seq > 2 and not (role == 'A' and persist == 'mem'):
            # an inbound number that is too low (no PossDupFlag) makes the session log out; the Logout is a new message like any other,
            # and the Logon of the next connection continues after it
            restarts += 1
            ops.append('in-too-low+restart')
            s.inject(s.peer_msg('0', seq=s.peer_seq - rng.randint(1, 2)))
            account('forced-logout')
            if s.q().get('shutdown') != '1':
                out.v('oracle:no-logout-on-too-low-number', 'case %d: state %s' % (n, s.q().get('state')), s)
                break
            out.stat('forced_logouts')
            check_store(out, s, n, stored_expect, ops)
            s.close()
            r = s.new(role, s.cfg['sci'], s.cfg['tci'], hb, persist, purge=0)
            s.handshake(r, hb)
            ok = account('restart-after-forced-logout')
            out.stat('restarts')
        elif restarts < 2 and not (role == 'A' and persist == 'mem'):
            restarts += 1
            ops.append('restart')
            # C17: the store must hold what was transmitted, before the objects go away
            check_store(out, s, n, stored_expect, ops)
            s.close()
            # mostly plain recovery; sometimes exactly one start number is configured (to the value it has anyway): the other must still be recovered
            how = rng.choice(['recover', 'recover', 'send-configured', 'recv-configured'])
            ops[-1] = 'restart(%s)' % how
            r = s.new(role, s.cfg['sci'], s.cfg['tci'], hb, persist, purge=0,
                      sendseq=expect_next if how == 'send-configured' else 0, recvseq=s.peer_seq if how == 'recv-configured' else 0)
            s.handshake(r, hb)
            ok = account('restart')
            out.stat('restarts')
        else:
            continue
        s.adv(rng.choice([0, 1, 10, 500, 1000]))
        if not ok:
            break
    check_store(out, s, n, stored_expect, ops)
    out.stat('new_messages_checked', len(sent))
    out.stat('steps', len(ops))
    out.distinct('op_sequence', hash((role, persist, tuple(ops))))
    if n % 97 == 0 and len(out.samples) < 3:
        out.samples.append({'role': role, 'persist': persist, 'start_send': sendseq or 1, 'ops': ops[:30], 'new_numbers': sorted(sent)[:20]})


def check_store(out, s, n, stored_expect, ops):
    if s.cfg.get('persist') == 'none':
        return
    for num, raw in stored_expect.items():
        got = s.get(num)
        out.stat('store_reads')
        if raw is None:
            if got is not None:
                out.v('oracle17:admin-message-stored', 'case %d: number %d (administrative) has a stored record %r' % (n, num, got[:80]), s)
        elif got != raw:
            kind = 'missing' if got is None else 'empty' if got == b'' else 'differs'
            how = 'batch' if any(o.startswith('batch') for o in ops) else 'single'
            out.v('oracle17:stored-copy-%s|%s' % (kind, how), 'case %d: number %d on the wire %r, stored %r; ops=%s' % (n, num, raw[:120], (got or b'')[:120], ops[-6:]), s)


def hist_c17ni(out, sim, rng, n, extra):
    """C17 only: an application message sent with no_increment=true is still a new message on the wire and must be stored under the
    number it carries (what the next message is numbered is not judged here)"""
    s = Sess(sim, rng)
    role = rng.choice('AI')
    persist = rng.choice(['file', 'mem'])
    r = s.new(role, 'SRV' if role == 'A' else 'CLI', 'CLI' if role == 'A' else 'SRV', 30, persist, purge=1)
    s.handshake(r, 30)
    for k in range(rng.randint(0, 4)):
        if rng.random() < 0.5:
            s.send('n%d_%d' % (n, k))
        else:
            s.hb()
    mark = len(s.wire)
    s._do('SENDNI ni%d' % n)
    outs = [m for m in s.wire[mark:] if m.type == 'D']
    out.stat('no_increment_sends')
    out.stat('store_reads')
    if len(outs) != 1:
        out.v('oracle17:no-increment-send-not-on-wire', 'case %d: %s' % (n, [vis(m) for m in s.wire[mark:]]), s)
        return
    got = s.get(outs[0].seq)
    if got != outs[0].raw:
        out.v('oracle17:stored-copy-%s|no-increment-send' % ('missing' if got is None else 'differs'),
              'case %d role=%s persist=%s: wire message carries 34=%s, stored under that number: %r' % (n, role, persist, outs[0].seq, (got or b'')[:100]), s)
    out.distinct('op_sequence', hash(('ni', role, persist, n % 7)))


def _split17(c):
    """hist_c16 feeds two properties: keys starting with oracle17: belong to C17"""
    mine, other = [], []
    for v in c.violations:
        (other if v.key.startswith('oracle17:') else mine).append(v)
    return mine, other


def c16(tier, seed):
    c = Check('C16', tier, seed)
    drive(c, 'hist_c16', 1500 if c.quick else 80000)
    mine, other = _split17(c)
    c.violations = mine
    c.stats['c17_violations_seen_in_this_run'] = len(other)
    c.distinct_names = ['op_sequence']
    c.rule = ('histories of 5..60 steps on one real Session (acceptor or initiator, file or memory persister, recovered or explicit start numbers): '
              'application sends, send_batch(2..6), administrative sends, in-sequence inbound heartbeats / test requests / application messages, '
              'resend requests inside the sent range, restarts with recovery; oracle over the bytes read from the peer socket: every message that '
              'is neither PossDup=Y nor a gap fill carries exactly the next number (start = configured or recovered), none is reused; after every '
              'command (quiescent point) the persisted control record equals the session counters and the counters equal the wire-implied numbers; '
              'evaluations = histories; distinct = distinct (role, persister, operation sequence)')
    c.assumptions = ['pm_coro: sends are synchronous; concurrency of senders is C25', 'inbound traffic in this check is in sequence; gaps are C19/C20',
                     'a gap fill whose NewSeqNo lies beyond the next new number moves the numbering there (C18: new messages continue from the last NewSeqNo announced)']
    c.finish()


def c17(tier, seed):
    c = Check('C17', tier, seed)
    drive(c, 'hist_c16', 1500 if c.quick else 80000)
    drive(c, 'hist_c17ni', 160 if c.quick else 4000)
    mine, other = _split17(c)
    c.violations = other
    for v in c.violations:
        v.key = v.key.replace('oracle17:', 'oracle:')
    c.stats['c16_violations_seen_in_this_run'] = len(mine)
    c.evaluations = c.stats.get('store_reads', 0)
    c.distinct_names = ['op_sequence']
    c.rule = ('C16\'s histories (every history mixes single sends, batches and administrative sends); before every restart and at the end each '
              'new message seen on the wire is read back from the persister by its MsgSeqNum: application messages must be byte-identical to '
              'the wire, administrative numbers must have no record; file and memory persisters; plus short histories ending in an application '
              'send with no_increment=true, which must be stored under the number it carries; evaluations = store reads')
    c.assumptions = ['the wire bytes are those read from the peer socket']
    c.finish()


# ---------------------------------------------------------------------------------------------------------
# C18: resend requests

def body_of(m):
    return [(t, v) for t, v in m.fields if t not in (8, 9, 34, 43, 52, 122, 10, 97)]


def hist_c18(out, sim, rng, n, extra):
    s = Sess(sim, rng)
    role = rng.choice('AI')
    persist = rng.choice(['file', 'mem', 'file', 'mem', 'none'])
    sendseq = rng.choice([0, 0, rng.randint(2, 30)])
    r = s.new(role, 'SRV' if role == 'A' else 'CLI', 'CLI' if role == 'A' else 'SRV', 30, persist, sendseq=sendseq, purge=1)
    s.handshake(r, 30)
    q = s.q()
    if q.get('state') != 'continuous':
        out.v('oracle:logon-failed', 'case %d: %s' % (n, q), s)
        return
    # build the sent log: application (stored) and administrative (not stored) numbers in a random pattern
    pattern = []
    ident = 0
    for _ in range(rng.randint(0, 14)):
        k = rng.random()
        if k < 0.45:
            ident += 1
            s.send('r%d_%d' % (n, ident))
            pattern.append('a')
        elif k < 0.65:
            ids = []
            for _ in range(rng.randint(2, 4)):
                ident += 1
                ids.append('r%d_%d' % (n, ident))
                pattern.append('a')
            s.batch(ids)
        else:
            for _ in range(rng.randint(1, 3)):
                s.hb()
                pattern.append('h')
        s.adv(rng.choice([1, 7, 1000]))
    sent = {m.seq: m for m in new_messages(s.wire)}
    stored = {k: m for k, m in sent.items() if m.type == 'D' and persist != 'none'}
    nrequests = rng.choice([1, 1, 2])
    for rq in range(nrequests):
        q = s.q()
        if q.get('shutdown') == '1' or q.get('state') != 'continuous':
            break
        nxt = int(q['send'])
        last = nxt - 1
        first = min(sent) if sent else nxt
        kind = rng.choice(['inside', 'inside', 'to-infinity', 'single', 'from-first', 'end-beyond-latest', 'begin-beyond-latest', 'whole'])
        if kind == 'inside':
            b = rng.randint(first, max(first, last))
            e = rng.randint(b, max(b, last))
        elif kind == 'to-infinity':
            b, e = rng.randint(first, max(first, last)), 0
        elif kind == 'single':
            b = e = rng.randint(first, max(first, last))
        elif kind == 'from-first':
            b, e = 1, rng.choice([0, last])
        elif kind == 'end-beyond-latest':
            b, e = rng.randint(first, max(first, last)), last + rng.randint(1, 5)
        elif kind == 'begin-beyond-latest':
            b = last + rng.randint(1, 4)
            e = rng.choice([0, b, b + 2])
        else:
            b, e = first, last
        if e and e < b:
            e = b
        # the request itself may be numbered ahead of sequence (messages before it were lost): it is answered all the same (a request
        # is never retransmitted, so skipping it would leave the peer waiting for ever); the session asks for its own gap as well
        ahead = rq == nrequests - 1 and rng.random() < 0.25
        if ahead:
            s.peer_seq += rng.randint(1, 3)
            kind += '+request-ahead-of-sequence'
        mark = len(s.wire)
        r = s.inject(s.peer_msg('2', [(7, b), (16, e)]))
        replies = s.wire[mark:]
        if ahead:
            own = [m for m in replies if m.type == '2' and not m.possdup]
            replies = [m for m in replies if not (m.type == '2' and not m.possdup)]
            out.stat('requests_ahead_of_sequence')
            if not own:
                out.v('oracle:no-resend-request-for-own-gap', 'case %d: request numbered ahead of sequence, the session did not ask for the gap; replies=%s' % (
                    n, [(x.type, x.seq) for x in s.wire[mark:]]), s)
        out.stat('resend_requests')
        ctx = 'case %d role=%s persist=%s pattern=%s sent=%d..%d request=[%d,%d] (%s)' % (n, role, persist, ''.join(pattern), first, last, b, e, kind)
        # the range the statement talks about
        # numbers above the latest number sent do not exist yet: the range ends at the latest (as for EndSeqNo=0)
        eff_e = min(e, last) if e else last
        cur = b
        ok = True
        last_newseq = None
        for m in replies:
            if m.type == '3':
                out.v('oracle:resend-request-answered-with-reject|' + kind, '%s: %s' % (ctx, vis(m)), s)
                ok = False
                break
            if is_gapfill(m):
                try:
                    nsn = int(m.get(36))
                except (TypeError, ValueError):
                    out.v('oracle:gapfill-without-newseqno|' + kind, '%s: %s' % (ctx, vis(m)), s)
                    ok = False
                    break
                if m.seq != cur:
                    out.v('oracle:gapfill-msgseqnum-not-first-of-gap|' + kind, '%s: gap fill carries 34=%s, the gap starts at %d (NewSeqNo %d); replies=%s' % (
                        ctx, m.seq, cur, nsn, [(x.type, x.seq, x.get(36)) for x in replies]), s)
                    ok = False
                    break
                if nsn <= cur:
                    out.v('oracle:gapfill-newseqno-not-beyond|' + kind, '%s: 34=%s 36=%d' % (ctx, m.seq, nsn), s)
                    ok = False
                    break
                skipped = [x for x in range(cur, nsn) if x in stored]
                if skipped:
                    out.v('oracle:gapfill-skips-stored-message|' + kind, '%s: gap fill %d->%d skips stored %s' % (ctx, cur, nsn, skipped[:5]), s)
                    ok = False
                    break
                cur = nsn
                last_newseq = nsn
            elif m.possdup:
                if m.seq != cur or cur not in stored:
                    why = 'out of order or duplicated' if m.seq in stored else 'not a stored number'
                    out.v('oracle:replay-unexpected|' + kind, '%s: replay of %s while the walk is at %d (%s); replies=%s' % (
                        ctx, m.seq, cur, why, [(x.type, x.seq, x.get(36)) for x in replies]), s)
                    ok = False
                    break
                o = stored[cur]
                if m.get(122) != o.get(52):
                    out.v('oracle:replay-origsendingtime-wrong|' + kind, '%s: number %d OrigSendingTime %s, original SendingTime %s' % (ctx, cur, m.get(122), o.get(52)), s)
                if body_of(m) != body_of(o):
                    out.v('oracle:replay-body-differs|' + kind, '%s: number %d replay %s original %s' % (ctx, cur, body_of(m), body_of(o)), s)
                if not m.frame_ok():
                    out.v('oracle:replay-frame-invalid|' + kind, '%s: %s' % (ctx, vis(m)), s)
                cur += 1
                last_newseq = None
            else:
                out.v('oracle:unexpected-message-in-resend-reply|' + kind, '%s: %s' % (ctx, vis(m)), s)
                ok = False
                break
        if ok and cur <= eff_e:
            out.v('oracle:range-not-covered|' + kind, '%s: reply ends at %d, range ends at %d; replies=%s' % (ctx, cur, eff_e, [(x.type, x.seq, x.get(36)) for x in replies]), s)
            ok = False
        if ok and not replies:
            out.v('oracle:no-reply|' + kind, ctx, s)
        out.distinct('request_shape', hash((persist, ''.join(pattern)[-10:], b - first, e - first if e else -1)))
        if not ok or ahead:
            break
        # afterwards: new messages continue (from the last NewSeqNo announced when the reply ended with a gap fill that went beyond)
        q2 = s.q()
        if q2.get('state') != 'continuous':
            out.v('oracle:not-continuous-after-resend|' + kind, '%s: state %s' % (ctx, q2.get('state')), s)
            break
        want_next = max(nxt, cur) if last_newseq is not None else nxt
        ident += 1
        mark = len(s.wire)
        s.send('r%d_%d' % (n, ident))
        nm = new_messages(s.wire[mark:])
        if len(nm) != 1 or nm[0].seq != want_next:
            out.v('oracle:next-new-number-after-resend|' + kind, '%s: next new message carries %s, expected %d (reply walk ended at %d)' % (
                ctx, [x.seq for x in nm], want_next, cur), s)
            break
        sent[nm[0].seq] = nm[0]
        if persist != 'none':
            stored[nm[0].seq] = nm[0]
        pattern.append('a')
        if n % 131 == 0 and len(out.samples) < 3:
            out.samples.append({'persist': persist, 'pattern': ''.join(pattern), 'request': [b, e], 'reply': [(x.type, x.seq, x.get(36), x.get(43)) for x in replies][:12]})


def c18(tier, seed):
    c = Check('C18', tier, seed)
    drive(c, 'hist_c18', 2000 if c.quick else 100000)
    c.evaluations = c.stats.get('resend_requests', 0)
    c.distinct_names = ['request_shape']
    c.rule = ('a real Session sends a random pattern of application messages (single and batched; stored) and heartbeats (not stored), then receives '
              'ResendRequests of 8 kinds (inside, to infinity, single number, from 1, end beyond the latest, begin beyond the latest, whole range; '
              'one or two in a row; the last one in a quarter of the cases numbered ahead of sequence itself; file / memory / no persister); the reply read from the socket is walked against an independent model: '
              'every stored number of the range replayed once in ascending order with its original number and body, PossDupFlag=Y and '
              'OrigSendingTime = original SendingTime; every gap fill carries the first number of its gap and a NewSeqNo that skips no stored '
              'message; the range is covered completely; the next new message continues from the right number; evaluations = requests')
    c.assumptions = ['a NewSeqNo may extend over further numbers that have no stored message (statement silent)',
                     'a trailing gap fill beyond the requested range is tolerated (it skips nothing stored)']
    c.finish()


# ---------------------------------------------------------------------------------------------------------
# C19: inbound sequencing

def corrupt(rng, raw, kind):
    if kind == 'bad-checksum':
        ck = int(raw[-4:-1])
        return raw[:-4] + ('%03d' % ((ck + rng.randint(1, 255)) % 256)).encode() + b'\x01'
    m = F.M(raw)
    f = [(t, v) for t, v in m.fields if t not in (8, 9, 10)]
    if kind == 'missing-mandatory':
        f = [(t, v) for t, v in f if t != 55]       # Symbol
    elif kind == 'unknown-tag':
        f.append((rng.choice([20000, 9999, 6000]), 'x'))
    elif kind == 'duplicate-field':
        f.append((55, 'DUP'))
    return F.frame(BEGIN, f)


def hist_c19(out, sim, rng, n, extra):
    s = Sess(sim, rng)
    role = rng.choice('AI')
    enforce = rng.choice([1, 1, 0])
    own, peer = ('SRV', 'CLI') if role == 'A' else ('CLI', 'SRV')
    r = s.new(role, own, peer, 30, rng.choice(['mem', 'none', 'file']), enforce=enforce, purge=1)
    s.handshake(r, 30)
    q = s.q()
    if q.get('state') != 'continuous':
        out.v('oracle:logon-failed', 'case %d: %s' % (n, q), s)
        return
    E = s.peer_seq              # the model's expected number
    outstanding = False         # a resend request of the session is unanswered
    ident = 0
    trace = []
    delivered_total = 0
    for step in range(rng.randint(3, 40)):
        k = rng.random()
        ident += 1
        cid = 'i%d_%d' % (n, ident)
        kw = {}
        kind = None
        if k < 0.34:
            kind, seq = 'in-sequence', E
        elif k < 0.46:
            kind, seq = 'ahead', E + rng.randint(1, 5)
        elif k < 0.52 and E > 2:
            kind, seq = 'low-no-possdup', rng.randint(1, E - 1)
            if rng.random() < 0.5:
                kw = dict(extra_header=[(43, 'N')])     # the flag is present but says N
        elif k < 0.62 and E > 2:
            kind, seq = 'low-possdup-ok', rng.randint(1, E - 1)
            kw = dict(possdup=True, orig_ms=s.now - rng.choice([0, 1, 5000]))
        elif k < 0.67 and E > 2:
            kind, seq = 'low-possdup-noorig', rng.randint(1, E - 1)
            kw = dict(possdup=True)
        elif k < 0.73 and E > 2:
            kind, seq = 'low-possdup-badtime', rng.randint(1, E - 1)
            kw = dict(possdup=True, orig_ms=s.now + rng.choice([1000, 60000]))
        elif k < 0.79:
            kind, seq = 'wrong-compid', E
            kw = dict(sender=peer + 'X') if rng.random() < 0.5 else dict(target=own + 'X')
        elif k < 0.84:
            kind, seq = 'corrupt-' + rng.choice(['bad-checksum', 'missing-mandatory', 'unknown-tag', 'duplicate-field']), E
        elif k < 0.87:
            kind, seq = 'corruptahead-' + rng.choice(['bad-checksum', 'missing-mandatory', 'unknown-tag']), E + rng.randint(1, 5)
        elif k < 0.93:
            kind, seq = 'header-value-contains-34=', E
            kw = dict(pre=[(rng.choice([50, 57, 115, 128]), rng.choice(['34=%d' % (E + 3), 'A34=7', 'x34=1', '34=']))])
        else:
            kind, seq = 'sequence-reset-gapfill', E
        if kind == 'sequence-reset-gapfill':
            newseq = E + rng.randint(1, 4)
            raw = s.peer_msg('4', [(123, 'Y'), (36, newseq)], seq=seq, possdup=True, orig_ms=s.now)
        else:
            raw = s.order(cid, seq=seq, **kw)
            if kind.startswith('corrupt-'):
                raw = corrupt(rng, raw, kind[8:])
            elif kind.startswith('corruptahead-'):
                raw = corrupt(rng, raw, kind[13:])
        trace.append('%s(%d|E=%d)' % (kind, seq, E))
        if len(trace) == 6 and n % 37 == 0 and len(out.samples) < 3:
            out.samples.append({'role': role, 'enforce': enforce, 'trace': list(trace), 'deliveries_so_far': delivered_total})
        mark = len(s.wire)
        r = s.inject(raw)
        outs = s.wire[mark:]
        deliv = r.delivered()
        q = s.q()
        ctx = 'case %d role=%s enforce=%d %s seq=%d model-expected=%d outstanding-resend=%s; trace=%s' % (n, role, enforce, kind, seq, E, outstanding, trace[-7:])
        out.stat('inbound_messages')
        out.distinct('situation', hash((kind, outstanding, enforce, seq - E if abs(seq - E) < 4 else 9)))
        types = [m.type for m in outs]
        terminated = q.get('shutdown') == '1'
        # ---- deliveries must be justified
        justified = kind in ('in-sequence', 'header-value-contains-34=', 'low-possdup-ok', 'low-possdup-noorig') or (kind == 'wrong-compid' and not enforce)
        if deliv and not justified:
            out.v('oracle:delivered-against-the-rule|' + kind, '%s: delivered %s' % (ctx, deliv), s)
            return
        if deliv and any(d[0] != cid for d in deliv):
            out.v('oracle:delivered-something-else|' + kind, '%s: delivered %s' % (ctx, deliv), s)
            return
        delivered_total += len(deliv)
        # ---- required reactions
        if kind == 'ahead':
            rr = [m for m in outs if m.type == '2']
            if deliv:
                pass
            if not outstanding:
                if not rr or rr[0].get(7) != str(E):
                    out.v('oracle:no-resend-request-from-expected|ahead', '%s: outbound %s' % (ctx, [(m.type, m.get(7), m.get(16)) for m in outs]), s)
                    return
                outstanding = True
            if terminated:
                out.v('oracle:session-terminated-on-higher-number|ahead', ctx, s)
                return
        elif kind == 'low-no-possdup' or (kind == 'wrong-compid' and enforce):
            if '5' not in types or not terminated:
                out.v('oracle:no-logout-and-termination|' + kind, '%s: outbound types %s, shutdown=%s state=%s' % (ctx, types, q.get('shutdown'), q.get('state')), s)
            return      # the session is (or should be) over
        elif kind.startswith('corruptahead-'):
            # a message that is not in sequence never moves the expected number, whether it decodes or not; nothing else is demanded
            if terminated:
                return
            if int(q['recv']) != E:
                out.v('oracle:expected-number-moved-by-out-of-sequence-message|' + kind, '%s: session now expects %s' % (ctx, q['recv']), s)
                return
            if any(m.type == '2' for m in outs):
                outstanding = True
            continue
        elif kind.startswith('corrupt-'):
            if '3' not in types and not ('5' in types and terminated):
                out.v('oracle:corrupt-message-not-rejected|' + kind, '%s: outbound types %s' % (ctx, types), s)
                return
            if terminated:
                return
            E = int(q['recv'])      # whether a rejected message consumes its number is not stated: follow the session
            continue
        elif kind in ('in-sequence', 'header-value-contains-34=') or (kind == 'wrong-compid' and not enforce):
            E += 1
            if outstanding and False:
                pass
        elif kind == 'sequence-reset-gapfill':
            E = newseq
            outstanding = False
        if terminated and kind in ('in-sequence', 'header-value-contains-34=', 'low-possdup-ok', 'low-possdup-noorig', 'sequence-reset-gapfill'):
            # C20's business in general, but a message the rule admits must not end the session when nothing else is wrong
            if not outstanding:
                out.v('oracle:session-terminated-on-admissible-message|' + kind, '%s: outbound types %s' % (ctx, types), s)
            return
        if terminated:
            return
        if outstanding and kind in ('in-sequence', 'header-value-contains-34='):
            # with a resend outstanding the session's own expectation may legitimately differ from the model's until recovery (C20)
            pass
        s.adv(rng.choice([0, 5, 100]))
    out.stat('deliveries', delivered_total)
    if n % 101 == 0 and len(out.samples) < 3:
        out.samples.append({'role': role, 'enforce': enforce, 'trace': trace[:20], 'deliveries': delivered_total})


def c19(tier, seed):
    c = Check('C19', tier, seed)
    drive(c, 'hist_c19', 3000 if c.quick else 150000)
    c.evaluations = c.stats.get('inbound_messages', 0)
    c.distinct_names = ['situation']
    c.rule = ('inbound histories of 3..40 application messages on an established Session (acceptor/initiator, CompID enforcement on/off): in '
              'sequence, ahead, lower without PossDup, lower with PossDup and OrigSendingTime earlier / absent / later, wrong Sender/TargetCompID, '
              'corrupt (checksum, missing mandatory field, unknown tag, duplicate), header values containing "34=" before MsgSeqNum, inbound gap '
              'fills; an independent receive model (expected number advances only on an in-sequence message or a SequenceReset) decides for each '
              'message: a router callback (delivery) must be justified by the rule; a higher number must produce ResendRequest(BeginSeqNo=expected) '
              'unless one is outstanding and must not end the session; too-low/wrong-CompID must produce Logout + termination without delivery; '
              'corrupt messages must be answered by Reject (or Logout) without delivery; evaluations = inbound messages; distinct = situations')
    c.assumptions = ['delivery = the application router callback ran (handle_application uses the documented idiom enforce(...) || msg->process(router))',
                     'one-directional: non-delivery of an admissible message is C20\'s business', 'whether a rejected message consumes its number is not stated: the model follows the session there']
    c.finish()


# ---------------------------------------------------------------------------------------------------------
# C20: gap recovery against a protocol-conformant counterparty (closed loop)

class Counterparty:
    """executable reference model of the FIX session protocol's sending side"""

    def __init__(self, s, own, peer):
        self.s, self.own, self.peer = s, own, peer     # own = counterparty's CompID, peer = the session's
        self.log = {}       # seq -> ('app', id, sent_ms) | ('admin', type, sent_ms)

    def next_seq(self):
        return self.s.peer_seq

    def emit(self, kind, ident=None):
        """consume the next number; returns the bytes a delivery would carry"""
        seq = self.s.peer_seq
        if kind == 'app':
            raw = self.s.order(ident)
            self.log[seq] = ('app', ident, self.s.now)
        elif kind == 'hb':
            raw = self.s.peer_msg('0')
            self.log[seq] = ('admin', '0', self.s.now)
        elif kind == 'logon':
            raw = self.s.logon(30)
            self.log[seq] = ('admin', 'A', self.s.now)
        elif kind.startswith('hbreply:'):
            raw = self.s.peer_msg('0', [(112, kind[8:])])
            self.log[seq] = ('admin', '0', self.s.now)
        return raw

    def answer_resend(self, b, e):
        """conformant reply: replay application messages, gap-fill administrative ones, in ascending order"""
        latest = self.s.peer_seq - 1
        end = latest if e == 0 or e > latest else e
        out = []
        n = b
        while n <= end:
            ent = self.log.get(n)
            if ent and ent[0] == 'app':
                out.append(self.s.order(ent[1], seq=n, possdup=True, orig_ms=ent[2]))
                n += 1
            else:
                m = n
                while m <= end and not (self.log.get(m) and self.log[m][0] == 'app'):
                    m += 1
                out.append(self.s.peer_msg('4', [(123, 'Y'), (36, m)], seq=n, possdup=True, orig_ms=self.log.get(n, ('', '', self.s.now))[2]))
                n = m
        return out


def hist_c20(out, sim, rng, n, extra):
    s = Sess(sim, rng)
    role = rng.choice('AI')
    persist = rng.choice(['file', 'file', 'mem']) if role == 'I' else 'file'
    own, peer = ('SRV', 'CLI') if role == 'A' else ('CLI', 'SRV')
    r = s.new(role, own, peer, 30, persist, purge=1)
    cp = Counterparty(s, peer, own)
    # logon (the counterparty's Logon is number 1)
    if role == 'I':
        s.inject(cp.emit('logon'))
    else:
        s.inject(cp.emit('logon'))
    q = s.q()
    if q.get('state') != 'continuous':
        out.v('oracle:logon-failed', 'case %d: %s' % (n, q), s)
        return
    # plan: counterparty messages with loss windows and optional reconnects
    nmsg = rng.randint(3, 30)
    plan = []
    ident = 0
    windows = rng.randint(0, 3)
    lost_at = set()
    for _ in range(windows):
        a = rng.randint(0, nmsg - 1)
        for x in range(a, min(nmsg, a + rng.randint(1, 4))):
            lost_at.add(x)
    reconnect_at = set(rng.sample(range(1, nmsg), min(nmsg - 1, rng.choice([0, 0, 1, 2])))) if nmsg > 2 else set()
    for i in range(nmsg):
        kind = 'app' if rng.random() < 0.7 else 'hb'
        plan.append((kind, i in lost_at, i in reconnect_at))
    # something arrives after the last loss so that it can be noticed: ONE message must be enough to start the recovery
    tail = rng.choice(['hb', 'app', 'hb+app'])
    for k in tail.split('+'):
        plan.append((k, False, False))
    delivered = set()
    sent_ids = []
    queue = []              # messages in flight towards the session (bytes)
    exchanges = 0
    budget = 6 * (len(plan) + windows + 4) + 40
    trace = []
    gaps = 0
    deferred = []           # resend requests the counterparty has not read yet
    defer_p = rng.choice([0, 0, 0.3, 0.7])
    cp_asks_p = rng.choice([0, 0, 0.08, 0.2])   # the counterparty asks the session for a resend of its own (always legitimate)
    if defer_p or cp_asks_p:
        budget *= 4

    def pump(raw, label):
        """deliver one message; react to what the session sends back"""
        nonlocal exchanges
        exchanges += 1
        mark = len(s.wire)
        r = s.inject(raw)
        for d in r.delivered():
            delivered.add(d[0])
        replies = []
        for m in s.wire[mark:]:
            if m.type == '2':
                b, e = int(m.get(7)), int(m.get(16))
                trace.append('RR[%d,%d]' % (b, e))
                replies.append(('resend', b, e))
            elif m.type == '1':
                replies.append(('testreq', m.get(112)))
            elif m.type == '5':
                replies.append(('logout', m.get(58)))
            elif m.type == '3':
                replies.append(('reject', m.get(58)))
        return replies

    def settle(initial):
        """process reactions until the wire is idle (bounded)"""
        pending = list(initial)
        while pending:
            kind = pending.pop(0)
            if exchanges > budget:
                return 'budget'
            if kind[0] == 'logout':
                return 'logout:' + str(kind[1])
            if kind[0] == 'reject':
                return 'reject:' + str(kind[1])
            if kind[0] == 'testreq':
                pending += pump(cp.emit('hbreply:' + (kind[1] or '')), 'hb-reply')
            elif kind[0] == 'resend':
                if not kind[-1] == 'now' and len(deferred) < 3 and rng.random() < defer_p:
                    # the counterparty has more in flight before it reads the request: its answer comes later
                    deferred.append(kind)
                    trace.append('defer')
                    continue
                for raw in cp.answer_resend(kind[1], kind[2]):
                    pending += pump(raw, 'replay')
                    if s.q().get('shutdown') == '1':
                        return 'terminated-during-replay'
        return None

    def flush_deferred():
        why = None
        while deferred and not why:
            k = deferred.pop(0)
            trace.append('late-answer[%d,%d]' % (k[1], k[2]))
            why = settle([k + ('now',)])
        return why

    ctx = lambda: 'case %d role=%s persist=%s plan=%s trace=%s' % (n, role, persist, ''.join(('A' if k == 'app' else 'h') + ('x' if l else '') + ('R' if rc else '') for k, l, rc in plan), trace[-12:])
    for i, (kind, lost, reconnect) in enumerate(plan):
        if reconnect:
            # disconnect; the counterparty keeps sending into the void; reconnect with a Logon numbered above what the session expects
            s.close()
            k = rng.randint(0, 3)
            for _ in range(k):
                ident += 1
                cid = 'g%d_%d' % (n, ident)
                cp.emit('app' if rng.random() < 0.7 else 'hb', cid)
                if cp.log[s.peer_seq - 1][0] == 'app':
                    sent_ids.append(cid)
            trace.append('reconnect(+%d)' % k)
            gaps += 1 if k else 0
            r = s.new(role, own, peer, 30, persist, purge=0)
            for m in r.outs:
                if m.type == 'A':
                    pass
            why = settle(pump(cp.emit('logon'), 'logon'))
            q = s.q()
            if why or q.get('shutdown') == '1' or q.get('state') not in ('continuous', 'resend_request_sent'):
                out.v('oracle:reconnect-with-higher-logon-number-fails', '%s: %s state=%s shutdown=%s' % (ctx(), why, q.get('state'), q.get('shutdown')), s)
                return
        if deferred and rng.random() < 0.5:
            why = flush_deferred()
            q = s.q()
            if why or q.get('shutdown') == '1':
                out.v('oracle:session-terminated-or-rejected-with-conformant-counterparty|' + (why or 'shutdown').split(':')[0],
                      '%s: %s state=%s (late answer to a resend request)' % (ctx(), why, q.get('state')), s)
                return
        if cp_asks_p and rng.random() < cp_asks_p:
            # serving the counterparty's request must not disturb the session's own recovery
            ns = int(s.q()['send'])
            b = rng.randint(max(1, ns - 6), ns)
            trace.append('cp-asks[%d,0]@%d' % (b, s.peer_seq))
            seq = s.peer_seq
            cp.log[seq] = ('admin', '2', s.now)
            why = settle(pump(s.peer_msg('2', [(7, b), (16, 0)]), 'cp-resend-request'))
            q = s.q()
            if why or q.get('shutdown') == '1':
                out.v('oracle:session-terminated-or-rejected-with-conformant-counterparty|' + (why or 'shutdown').split(':')[0],
                      '%s: %s state=%s (after the counterparty\'s own resend request)' % (ctx(), why, q.get('state')), s)
                return
        ident += 1
        cid = 'g%d_%d' % (n, ident)
        raw = cp.emit(kind, cid)
        if kind == 'app':
            sent_ids.append(cid)
        if lost:
            trace.append('lost%d' % (s.peer_seq - 1))
            gaps += 1
            continue
        trace.append('%s%d' % ('a' if kind == 'app' else 'h', s.peer_seq - 1))
        why = settle(pump(raw, kind))
        q = s.q()
        if why or q.get('shutdown') == '1':
            out.v('oracle:session-terminated-or-rejected-with-conformant-counterparty|' + (why or 'shutdown').split(':')[0],
                  '%s: %s state=%s' % (ctx(), why, q.get('state')), s)
            return
        s.adv(rng.choice([0, 3, 50]))
    if deferred:
        why = flush_deferred()
        q = s.q()
        if why or q.get('shutdown') == '1':
            out.v('oracle:session-terminated-or-rejected-with-conformant-counterparty|' + (why or 'shutdown').split(':')[0],
                  '%s: %s state=%s (late answer to a resend request)' % (ctx(), why, q.get('state')), s)
            return
        # something in sequence arrives after the late answers, so that what they left open can be noticed
        for kind in ('hb', 'app'):
            ident += 1
            cid = 'g%d_%d' % (n, ident)
            raw = cp.emit(kind, cid)
            if kind == 'app':
                sent_ids.append(cid)
            why = settle(pump(raw, kind))
            if not why and deferred:
                why = flush_deferred()
            q = s.q()
            if why or q.get('shutdown') == '1':
                out.v('oracle:session-terminated-or-rejected-with-conformant-counterparty|' + (why or 'shutdown').split(':')[0],
                      '%s: %s state=%s' % (ctx(), why, q.get('state')), s)
                return
    out.stat('histories_with_gaps', 1 if gaps else 0)
    out.stat('histories_with_late_answers', 1 if any(t.startswith('late-answer') for t in trace) else 0)
    out.stat('histories_with_counterparty_requests', 1 if any(t.startswith('cp-asks') for t in trace) else 0)
    out.stat('counterparty_messages', len(cp.log))
    out.stat('exchanges', exchanges)
    q = s.q()
    missing = [c_ for c_ in sent_ids if c_ not in delivered]
    if missing:
        out.v('oracle:application-message-never-delivered', '%s: %d of %d never delivered, e.g. %s; session expects %s, counterparty next %d, state %s' % (
            ctx(), len(missing), len(sent_ids), missing[:4], q.get('recv'), s.peer_seq, q.get('state')), s)
        return
    if int(q['recv']) != s.peer_seq:
        out.v('oracle:expected-number-differs-after-recovery', '%s: session expects %s, counterparty next %d, state %s' % (ctx(), q['recv'], s.peer_seq, q.get('state')), s)
        return
    if q.get('state') != 'continuous':
        out.v('oracle:not-continuous-after-recovery', '%s: state %s' % (ctx(), q.get('state')), s)
        return
    out.distinct('plan', hash((role, tuple(plan))))
    out.distinct('recovery_trace', hash(tuple(t for t in trace if t.startswith(('RR', 'lost', 'reconnect')))))
    if n % 67 == 0 and len(out.samples) < 3:
        out.samples.append({'role': role, 'persist': persist, 'trace': trace[:40], 'delivered': len(delivered), 'sent': len(sent_ids)})


def c20(tier, seed):
    c = Check('C20', tier, seed)
    drive(c, 'hist_c20', 1500 if c.quick else 60000)
    c.distinct_names = ['plan', 'recovery_trace']
    c.rule = ('closed loop between one real Session and an executable reference model of a conformant counterparty (own sent log; answers every '
              'ResendRequest by replaying application messages with PossDup/OrigSendingTime and gap-filling administrative ones, answers test '
              'requests, then continues): plans of 3..30 counterparty messages with up to 3 loss windows and up to 2 disconnects during which the '
              'counterparty keeps numbering (reconnect Logon above the expected number), acceptor and initiator, file/memory persister; bounded '
              'progress: the loop runs until the wire is idle, at most 6x(messages+gaps)+40 exchanges; verdict: no Logout/Reject/termination, '
              'every application id delivered at least once, expected number == counterparty\'s next, state continuous; evaluations = histories')
    c.assumptions = ['liveness restated as bounded progress at the point where the wire is idle', 'messages lost are those sent while disconnected or dropped in a loss window; the plan ends with a message that arrives']
    c.finish()


# ---------------------------------------------------------------------------------------------------------
# C22: heartbeat / test request supervision on the virtual clock

def hist_c22(out, sim, rng, n, extra):
    s = Sess(sim, rng)
    role = rng.choice('AI')
    H = rng.choice([1, 2, 5, 7, 10, 30, 60])
    own, peer = ('SRV', 'CLI') if role == 'A' else ('CLI', 'SRV')
    r = s.new(role, own, peer, H, 'none', purge=1)
    s.handshake(r, H)
    q = s.q()
    if q.get('state') != 'continuous':
        out.v('oracle:logon-failed', 'case %d: %s' % (n, q), s)
        return
    LS = LR = s.now          # model: instants of the last transmission / reception (ms)
    pending = False
    T_tr = None
    ahead_done = False
    lim = (H + H // 5 + 1) * 1000        # "more than H plus 20 percent", the session works in whole seconds: from floor(1.2H)+1 s it is due
    free_lo = 1200 * H                   # up to and including 1.2 H nothing may be concluded
    trace = []
    ident = 0
    for step in range(rng.randint(4, 80)):
        k = rng.random()
        mark = len(s.wire)
        if k < 0.36:
            d = rng.choice([1, 250, 999, 1000, 1001, H * 500, H * 1000 - 1, H * 1000, H * 1000 + 1, H * 1200, H * 1200 + 1, lim - 1, lim, lim + 1, rng.randint(1, 3 * H * 1000)])
            s.adv(d)
            trace.append('+%d' % d)
            continue
        if k < 0.72:
            trace.append('tick@%d' % ((s.now - T0)))
            r = s.tick()
            outs = s.wire[mark:]
            types = [m.type for m in outs]
            idle, quiet = s.now - LS, s.now - LR
            ctx = 'case %d role=%s H=%d idle=%dms quiet=%dms pending=%s since-test-request=%s; trace=%s' % (
                n, role, H, idle, quiet, pending, (s.now - T_tr) if T_tr is not None else None, trace[-8:])
            out.stat('ticks')
            out.distinct('tick_situation', hash((H, min(idle // 500, 400), min(quiet // 500, 400), pending)))
            if idle >= H * 1000 and '0' not in types and '5' not in types:
                out.v('oracle:heartbeat-not-sent-when-due', '%s: outbound %s' % (ctx, types), s)
                return
            if not pending:
                if '1' in types:
                    if quiet <= free_lo:
                        out.v('oracle:test-request-too-early', '%s' % ctx, s)
                        return
                    pending, T_tr = True, s.now
                    out.stat('test_requests')
                elif quiet >= lim:
                    out.v('oracle:test-request-not-sent-when-due', '%s: outbound %s' % (ctx, types), s)
                    return
                if '5' in types:
                    out.v('oracle:logout-without-test-request', ctx, s)
                    return
            else:
                since = s.now - T_tr
                if '5' in types:
                    if since <= free_lo:
                        out.v('oracle:logout-too-early-after-test-request', ctx, s)
                        return
                    out.stat('logouts_after_unanswered_test_request')
                    q = s.q()
                    if q.get('shutdown') != '1':
                        out.v('oracle:not-terminated-after-logout', '%s: %s' % (ctx, q), s)
                    return
                if since >= lim and quiet >= lim:
                    out.v('oracle:no-logout-after-unanswered-test-request', '%s: outbound %s' % (ctx, types), s)
                    return
            if outs:
                LS = s.now
            continue
        if k < 0.80:
            ident += 1
            trace.append('send')
            s.send('h%d_%d' % (n, ident))
            if s.wire[mark:]:
                LS = s.now
            continue
        if k < 0.90:
            trace.append('in-hb')
            tid = 'TEST' if pending and rng.random() < 0.5 else None      # the statement says "an inbound Heartbeat", with or without the id
            r = s.inject(s.peer_msg('0', [(112, tid)] if tid else []))
            LR = s.now
            if s.wire[mark:]:
                LS = s.now
            if pending:
                q = s.q()
                if q.get('state') != 'continuous':
                    out.v('oracle:heartbeat-does-not-end-test-request-state', 'case %d H=%d: state %s after the answering Heartbeat; trace=%s' % (n, H, q.get('state'), trace[-8:]), s)
                    return
                pending, T_tr = False, None
                out.stat('test_requests_answered')
            continue
        if pending:
            continue        # while a test request is pending only its answer (or silence) is played: other traffic makes the statement ambiguous
        if k < 0.92 and not ahead_done:
            # a message ahead of sequence: the session asks for a resend (state resend_request_sent); supervision must go on regardless
            ahead_done = True
            ident += 1
            trace.append('in-ahead')
            s.inject(s.order('h%d_%d' % (n, ident), seq=s.peer_seq + 3))
            LR = s.now
            if s.wire[mark:]:
                LS = s.now
            continue
        if k < 0.95 and not ahead_done:
            ident += 1
            trace.append('in-app')
            s.inject(s.order('h%d_%d' % (n, ident)))
            LR = s.now
            if s.wire[mark:]:
                LS = s.now
            continue
        tid = 'TR%d_%d' % (n, step)
        trace.append('in-testreq')
        r = s.inject(s.peer_msg('1', [(112, tid)]))
        LR = s.now
        outs = s.wire[mark:]
        out.stat('inbound_test_requests')
        if not any(m.type == '0' and m.get(112) == tid for m in outs):
            out.v('oracle:test-request-not-answered-with-same-id', 'case %d H=%d: sent TestReqID %s, outbound %s' % (n, H, tid, [(m.type, m.get(112)) for m in outs]), s)
            return
        LS = s.now
    if n % 59 == 0 and len(out.samples) < 3:
        out.samples.append({'role': role, 'H': H, 'trace': trace[:30]})


def c22(tier, seed):
    c = Check('C22', tier, seed)
    drive(c, 'hist_c22', 2000 if c.quick else 100000)
    c.evaluations = c.stats.get('ticks', 0) + c.stats.get('inbound_test_requests', 0)
    c.distinct_names = ['tick_situation']
    c.rule = ('timelines of 4..80 events on the virtual clock (advance by 1 ms..3H incl. H-1ms, H, H+1ms, 1.2H, 1.2H+1ms, floor(1.2H)+1 s; supervision '
              'tick; application send; inbound heartbeat / application message / test request) for H in {1,2,5,7,10,30,60}, acceptor and initiator; '
              'a timeline model of last-sent / last-received instants decides every tick: Heartbeat when idle >= H; TestRequest once quiet >= '
              'floor(1.2H)+1 s and never while quiet <= 1.2H; after a TestRequest the Logout only after a further such period, never within 1.2H, '
              'and then termination; TestRequest answered by a Heartbeat with the same TestReqID; the answering Heartbeat restores continuous; '
              'evaluations = ticks + inbound test requests; distinct = (H, idle, quiet, pending) situations')
    c.assumptions = ['the second between 1.2H and floor(1.2H)+1 s is free (the session compares whole seconds)', 'while a test request is pending only its answer or silence is played']
    c.finish()


# ---------------------------------------------------------------------------------------------------------
# C23: logon acceptance, CompID identity

def hist_c23(out, sim, rng, n, extra):
    ids = ['AAA', 'BBB', 'CCC']
    part = n % 3
    if part == 0:
        # ---- acceptor
        s = Sess(sim, rng)
        own = rng.choice(ids)
        enforce = rng.choice([0, 1])
        sender, target = rng.choice(ids), rng.choice(ids)
        clients = rng.choice(['-', sender, ','.join(x for x in ids if x != sender), ','.join(ids)])
        reset = rng.choice([False, True])
        hb = rng.choice([1, 5, 17, 30, 45, 120])
        pre_send, pre_recv = rng.choice([(0, 0), (7, 5), (3, 9)])
        s.new('A', own, sender, 30, 'mem', enforce=enforce, clients=clients, sendseq=pre_send, recvseq=pre_recv, purge=1)
        lseq = 1 if reset or not pre_recv else pre_recv
        mark = len(s.wire)
        r = s.inject(s.logon(hb, reset=reset, seq=lseq, sender=sender, target=target))
        outs = s.wire[mark:]
        q = s.q()
        legit = (not enforce or target == own) and (clients == '-' or sender in clients.split(','))
        accepted = q.get('state') == 'continuous' and q.get('shutdown') != '1'
        lg = [m for m in outs if m.type == 'A']
        ctx = 'case %d acceptor own=%s logon(sender=%s target=%s) enforce=%d clients=%s reset=%s hb=%d preset=%s/%s: state=%s shutdown=%s outbound=%s' % (
            n, own, sender, target, enforce, clients, reset, hb, pre_send, pre_recv, q.get('state'), q.get('shutdown'), [(m.type, m.seq, m.get(108)) for m in outs])
        out.stat('acceptor_logons')
        out.distinct('combo', hash(('A', own == target, enforce, clients == '-', sender in clients.split(','), reset, bool(pre_recv))))
        if accepted and not legit:
            out.v('oracle:acceptor-accepts-illegitimate-logon|' + ('wrong-target' if target != own and enforce else 'sender-not-listed'), ctx, s)
            return
        if legit and not accepted:
            out.v('oracle:acceptor-refuses-legitimate-logon', ctx, s)
            return
        if not legit:
            if lg:
                out.v('oracle:logon-reply-to-refused-logon', ctx, s)
            return
        if not lg or lg[0].get(108) != str(hb):
            out.v('oracle:logon-reply-heartbtint-not-echoed', ctx, s)
            return
        if reset and (lg[0].seq != 1 or q.get('send') != '2' or q.get('recv') != '2'):
            out.v('oracle:reset-flag-does-not-reset-both-numbers', ctx + ' counters %s/%s' % (q.get('send'), q.get('recv')), s)
        if not reset and pre_send and lg[0].seq != pre_send:
            out.v('oracle:configured-start-number-ignored', ctx, s)
    elif part == 1:
        # ---- initiator
        s = Sess(sim, rng)
        own, peer = rng.sample(ids, 2) if rng.random() < 0.8 else (ids[0], ids[0])
        enforce = rng.choice([0, 1])
        r = s.new('I', own, peer, 30, 'none', enforce=enforce, purge=1)
        rs, rt = rng.choice(ids), rng.choice(ids)
        s.inject(s.logon(30, sender=rs, target=rt))
        q = s.q()
        mirror = (rs == peer and rt == own)
        accepted = q.get('state') == 'continuous' and q.get('shutdown') != '1'
        ctx = 'case %d initiator identity %s->%s, Logon response sender=%s target=%s enforce=%d: state=%s shutdown=%s' % (n, own, peer, rs, rt, enforce, q.get('state'), q.get('shutdown'))
        out.stat('initiator_logons')
        out.distinct('combo', hash(('I', rs == peer, rt == own, enforce, own == peer)))
        if enforce and accepted and not mirror:
            which = 'sender-differs' if rs != peer and rt == own else 'target-differs' if rt != own and rs == peer else 'both-differ'
            out.v('oracle:initiator-accepts-mismatching-compids|' + which, ctx, s)
        elif mirror and not accepted:
            out.v('oracle:initiator-refuses-mirrored-compids', ctx, s)
    else:
        # ---- SessionID comparison, exhaustive over the 3-letter alphabet (81 pairs), one pair per case index
        k = (n // 3) % 81
        a, b, c_, d = ids[k % 3], ids[k // 3 % 3], ids[k // 9 % 3], ids[k // 27 % 3]
        lines = sim.cmd('SID %s %s %s %s %s %s' % (BEGIN, a, b, BEGIN, c_, d))
        res = dict(x.split('=') for x in lines[0].split(' ')[1:])
        equal = (a == c_ and b == d)
        out.stat('sessionid_pairs')
        out.distinct('combo', hash(('S', k)))
        if (res['eq'] == '1') != equal:
            out.v('oracle:sessionid-equality-wrong', 'case %d: %s->%s == %s->%s gives %s' % (n, a, b, c_, d, res['eq']))
        if (res['ne'] == '1') != (not equal):
            which = 'one-side-differs' if (a == c_) != (b == d) else 'both-differ' if not equal else 'equal'
            out.v('oracle:sessionid-inequality-not-negation|' + which, 'case %d: %s->%s != %s->%s gives %s (== gives %s)' % (n, a, b, c_, d, res['ne'], res['eq']))
        if res['selfeq'] != '1' or res['selfne'] != '0':
            out.v('oracle:sessionid-self-comparison', 'case %d: %s' % (n, res))
    if n % 41 == 0 and len(out.samples) < 4:
        out.samples.append({'case': n, 'part': ['acceptor', 'initiator', 'sessionid'][part]})


def c23(tier, seed):
    c = Check('C23', tier, seed)
    drive(c, 'hist_c23', 3000 if c.quick else 60000)
    c.distinct_names = ['combo']
    c.rule = ('acceptor: every combination of own CompID x Logon Sender/TargetCompID over a 3-letter alphabet x enforcement on/off x client list (none / '
              'containing / not containing the sender / all) x ResetSeqNumFlag x HeartBtInt x preset numbers: logon completes iff the stated '
              'conditions hold, the reply echoes HeartBtInt, the reset flag resets both numbers to 1; initiator: response CompIDs over the '
              'alphabet x enforcement: accepted with enforcement on only when they mirror the identity; SessionID == and != over all 81 pairs '
              '(exhaustive): != must be the negation of ==; evaluations = cases; distinct = configuration combinations')
    c.assumptions = ['"treats as a mismatch" = the initiator does not reach the established state', 'SessionID equality is over (SenderCompID, TargetCompID) as the class defines it']
    c.finish()
