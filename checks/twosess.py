"""C21: an initiator and an acceptor built on the library, across drops and restarts (real threads, sockets, file persisters)."""
from runner import Check


def c21(tier, seed):
    c = Check('C21', tier, seed)
    exe = c.build('asan', ['two_sessions'])['two_sessions']
    n = 64 if c.quick else 1500
    c.run_cases(exe, ['--dir', c.scratch], n, per_case_timeout=120, workers=8)
    inc = [v for v in c.violations if v.key.startswith('inconclusive:')]
    if inc:
        c.violations = [v for v in c.violations if not v.key.startswith('inconclusive:')]
        c.inconclusive.append('%d schedules hit a watchdog (e.g. %s)' % (len(inc), inc[0].detail[:200]))
    c.evaluations = c.stats.get('messages_sent', 0)
    c.distinct_names = ['schedule']
    c.extra['faults_injected'] = c.stats.get('faults', 0)
    c.rule = ('one initiator and one acceptor Session in one process (pm_thread and pm_pipeline alternating), real reader/writer threads, loopback '
              'TCP, FilePersisters; schedules of 3..25 steps: 1..4 application sends on either side, or a fault - abrupt shutdown of the socket, '
              'destruction of the initiator\'s or the acceptor\'s objects, or a partition (the two sessions talk through a forwarding thread which '
              'from one instant on swallows everything in both directions while both sides go on sending successfully) - optionally hitting traffic in flight and followed by 0..3 sends into '
              'the dead connection, after which both sides are rebuilt from their files and log on again; in 40% of the reconnects the schedule '
              'goes on as soon as both logons are complete, i.e. WHILE the two sides are still asking each other for resends (marked ~ in the '
              'trace); a send counts once the library took responsibility for it (pm_thread: send() returned true; pm_pipeline: the writer '
              'thread gave this very message a number and the send number has moved past it); offline checker over the '
              'delivery log: every such message delivered to the peer\'s application at least once, first deliveries in send order, re-deliveries '
              'flagged PossDup, both sessions continuous with matching numbers at every settle point; sessions that are established but do not agree after 25 '
              'heartbeat exchanges which both sides numbered are reported as stuck (a logical criterion, not a time-out); evaluations = messages sent')
    c.assumptions = ['eventual delivery is judged at the logical quiescent point (both continuous, counters agree and stable); a 60 s watchdog makes the run inconclusive, not failed',
                     'timers are stopped; a pair of heartbeats is sent when the counters disagree for 300 ms (what the heartbeat does in production)',
                     'every fault is followed by a rebuild of both sides (the session objects are not reused across connections)']
    c.finish()
