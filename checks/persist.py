"""C26 (persister contract, model-based histories) and C27 (file persister crash-point enumeration)."""
from runner import Check


def c26(tier, seed):
    c = Check('C26', tier, seed)
    exe = c.build('asan', ['persist_model'])['persist_model']
    cases = 3000 if c.quick else 200000
    c.run_cases(exe, ['--dir', c.scratch], cases, per_case_timeout=20)
    c.evaluations = c.stats.get('ops', 0)
    c.distinct_names = ['history']
    c.rule = ('random histories (3..120 ops) of put/get/control put/control get/last/nearest-highest/range get/reopen on '
              'MemoryPersister and FilePersister; every return value and every retrans callback compared with a '
              'std::map + control-pair model; payloads 0..8192 bytes incl. NUL/SOH/high-bit; key spaces 8/40/400; '
              'evaluations = API calls checked; distinct = distinct operation-kind sequences')
    c.extra['histories'] = c.stats.get('histories', 0)
    c.assumptions = ['payloads are at most FIX8_MAX_MSG_LENGTH (8192) bytes', 'range retrieval is observed through an overridden Session::retrans_callback']
    c.finish()


def c27(tier, seed):
    c = Check('C27', tier, seed, level='fault_enumeration')
    exe = c.build('plain', ['persist_crash'])['persist_crash']  # fork-heavy: ASan's shadow makes every fork ~50 ms; C26 runs the same code under ASan
    cases = 250 if c.quick else 10000
    c.run_cases(exe, ['--dir', c.scratch], cases, per_case_timeout=120)
    c.evaluations = c.stats.get('crash_points', 0)
    c.distinct_names = ['crash_point']
    c.exhaustive = False
    c.extra['scripts'] = c.stats.get('scripts', 0)
    c.extra['distinct_scripts'] = len(c.hashes.get('script', ()))
    c.extra['per_script_crash_points_exhaustive'] = True
    c.rule = ('scripts of 1..7 store operations (message first / control first / alternating / random, with reopen); for EVERY k '
              'a child process is _exit()ed right after the k-th completed write/lseek on the store\'s descriptors (symbol '
              'interposition), a fresh process reopens the store and checks: completed stores identical, no number returns '
              'bytes never stored for it, control record = last completed (or in-flight) one, further stores incl. the '
              'in-flight number retrievable, again after a second reopen; distinct = distinct (script, crash point) pairs')
    c.assumptions = ['process crash model: completed system calls persist (no power failure, no torn write)',
                     'an operation whose last call is the crash point counts as in flight (present or absent)']
    c.finish()
