"""C24: Schedule::test over a virtual clock; decode_dow over all short strings."""
from runner import Check


def c24(tier, seed):
    c = Check('C24', tier, seed)
    exe = c.build('asan', ['sched_mon'])['sched_mon']
    n = 320 if c.quick else 10000
    c.run_cases(exe, [], n, per_case_timeout=30)
    c.run_cases(exe, ['--dow'], 1, per_case_timeout=300, workers=1, label='dow')
    c.evaluations = c.stats.get('schedule_checks', 0) + c.stats.get('decode_dow_strings', 0)
    c.distinct_names = ['schedule']
    c.extra['decode_dow_exhaustive_over_alphabet_strings_up_to_3'] = True
    c.rule = ('schedules (daily, weekly start<end day, weekly wrapping over the week end, weekly on one weekday incl. the configuration default '
              'end_day=start_day) built directly and through Configuration::create_schedule from XML, start/end times to the second, utc offsets '
              '-720..+840 min; Schedule::test(previous state) is stepped every 20..60 s over three weeks of a virtual clock (clock_gettime '
              'interposed) from random start instants with both initial states; every result must equal window membership computed independently '
              'from (start, end, offset, days); decode_dow: every string of length 0..3 over a 100-byte alphabet plus full names vs a reference '
              'decoder written from the statement; evaluations = checks + strings; distinct = distinct schedules')
    c.assumptions = ['the weekday of an input is decided by its unique one- or two-letter prefix; what follows the prefix is not examined (weaker reading)',
                     'check instants never coincide with a window boundary to the nanosecond']
    c.finish()
