"""C28 (logger: every accepted line once, in order) and C29 (rotation)."""
from runner import Check


def c28(tier, seed):
    c = Check('C28', tier, seed)
    exe = c.build('asan', ['logger_stress'])['logger_stress']
    cases = 320 if c.quick else 10000
    c.run_cases(exe, ['--dir', c.scratch], cases, per_case_timeout=30, workers=8)
    if not c.quick:
        texe = c.build('tsan', ['logger_stress'])['logger_stress']
        c.run_cases(texe, ['--dir', c.scratch], 600, per_case_timeout=60, workers=8, label='tsan')
    c.evaluations = c.stats.get('lines_submitted', 0)
    c.distinct_names = ['file_interleaving']
    c.extra['runs'] = c.stats.get('runs', 0)
    c.rule = ('FileLogger (sequence+thread+level columns) with 1..8 producer threads x 20..2000 uniquely identified lines at random '
              'levels, random enabled-level masks, stop() after join or racing the producers; offline checker over per-line '
              '(return value, logical return time) and the file read when stop() returned: required lines present exactly once, '
              'per-producer order, sequence column 1..M consecutive, no disabled-level line, submit true for accepted lines; '
              'evaluations = lines submitted; distinct = distinct producer interleavings observed in the files')
    c.assumptions = ['a line is "submitted before stop" when its send() returned (logical clock) before stop() was called',
                     'no demand on the return value for lines at disabled levels', 'the buffer flag (explicit flush) is not used']
    c.finish()


def c29(tier, seed):
    c = Check('C29', tier, seed)
    exe = c.build('asan', ['rotate_fs'])['rotate_fs']
    if c.quick:
        c.run_cases(exe, ['--dir', c.scratch], 13 * 4 * 4, per_case_timeout=60)
    else:
        c.run_cases(exe, ['--dir', c.scratch, '--everycount'], 1101 * 4, per_case_timeout=60)
        c.run_cases(exe, ['--dir', c.scratch], 13 * 4 * 20, per_case_timeout=60)
        c.extra['every_count_0_to_1100'] = True
    c.evaluations = c.stats.get('rotations', 0)
    c.rule = ('rotation counts {0,1,2,3,5,17,100,1023,1024,1025,1100,2100,5000} (thorough: every 0..1100 too) x {FileLogger ctor, '
              'append-mode logger with and without force, second rotation, FilePersister purge with .idx files} x random pre-existing '
              'generation sets (gaps, missing live file, beyond the count) and bystander files; directory snapshot before/after: '
              'name.k == old name.(k-1), nothing created beyond min(count,1024), bystanders untouched, append-mode not rotated '
              'unless forced; ASan for the bookkeeping; distinct = distinct (count, mode, generation set shape)')
    c.assumptions = ['where name.(k-1) did not exist before, name.k may be absent or unchanged (statement silent)']
    c.finish()
