"""C25: concurrent senders through one session (ThreadSanitizer build + functional wire/store oracle)."""
from runner import Check


def c25(tier, seed):
    c = Check('C25', tier, seed)
    texe = c.build('tsan', ['conc_send'])['conc_send']
    n = 160 if c.quick else 5000
    c.run_cases(texe, ['--dir', c.scratch], n, per_case_timeout=60, workers=16, label='tsan')
    aexe = c.build('asan', ['conc_send'])['conc_send']
    c.run_cases(aexe, ['--dir', c.scratch], 48 if c.quick else 1500, per_case_timeout=60, workers=16, label='asan')
    inc = [v for v in c.violations if v.key.startswith('inconclusive:')]
    if inc:
        c.violations = [v for v in c.violations if not v.key.startswith('inconclusive:')]
        c.inconclusive.append('%d runs hit the 120 s drain watchdog (machine load); not a verdict' % len(inc))
    c.evaluations = c.stats.get('wire_messages', 0)
    if not c.stats.get('retransmissions_checked', 0):
        c.inconclusive.append('no resend request was answered in this run: the replay-versus-senders part observed nothing')
    c.extra['resend_requests_served_while_sending'] = c.stats.get('resend_requests', 0)
    c.extra['retransmissions_checked'] = c.stats.get('retransmissions_checked', 0)
    c.distinct_names = ['wire_interleaving']
    c.extra['thread_sanitizer_build'] = True
    c.rule = ('2..8 application threads x 20..200 messages each through ONE real Session on a real ServerConnection (pm_thread and pm_pipeline '
              'alternating, file and memory persister alternating), send(Message*) mixed with send_batch(2..6) (0..50%), seeded yields/spins in '
              'the senders, message sizes varied; a wire-reader thread records the peer socket; oracle: the stream splits into whole messages, '
              'MsgSeqNums are start..start+N-1 each once in increasing wire order, every id exactly once, stored copy under each number == wire '
              'message; in 45% of the cases the peer also sends ResendRequests WHILE the threads are sending (one outstanding at a time, bounded '
              'ranges below the highest number it has seen, finally one open-ended): the replay runs on the session\'s receiving thread against the '
              'senders\' stores; every number in such a range was stored before the request existed (sends are serialised, a message is stored '
              'before the next is written), so it must come back as a PossDup copy equal to what was transmitted (modulo 9/43/52/122/10), in '
              'ascending order, never covered by a gap fill; built with -fsanitize=thread (hook H1 makes FastFlow hand-overs visible; races inside ff:: are suppressed) and again with '
              'ASan; evaluations = messages on the wire; distinct = distinct orders of sender threads on the wire')
    c.assumptions = ['FastFlow\'s volatile/CAS protocol is trusted as acquire/release on x86-64 (its functional behaviour is C30)',
                     'ThreadSanitizer sees only the interleavings that occurred']
    c.finish()
