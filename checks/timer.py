"""C31: timer lower bounds, due order, repeat counts, silence after clear()."""
from runner import Check


def c31(tier, seed):
    c = Check('C31', tier, seed)
    exe = c.build('asan', ['timer_mon'])['timer_mon']
    n = 400 if c.quick else 20000
    c.run_cases(exe, [], n, per_case_timeout=20, workers=16)
    if not c.quick:
        texe = c.build('tsan', ['timer_mon'])['timer_mon']
        c.run_cases(texe, [], 1500, per_case_timeout=30, workers=16, label='tsan')
    c.evaluations = c.stats.get('callbacks', 0) + c.stats.get('ordered_pairs_checked', 0)
    c.distinct_names = ['event_set']
    c.rule = ('real Timer<Monitor> instances (granularity 1..10 ms) on real threads and the real clock: 1..3 rounds of 1..6 events with delays '
              '1..200 ms (30% at 1..5 ms), repeat flags, callbacks returning true 0..3 times, callbacks that take up to 20 ms, clear() at random '
              'moments, re-scheduling after clear; oracle: every callback entry >= schedule instant + delay (k-th run of a repeating event: + k '
              'further intervals), first runs of two events pending together whose due brackets are disjoint are entered in due order (global '
              'atomic ticket), no run after the callback returned false, a non-repeating event runs once, no run of an event scheduled before '
              'clear() is entered after clear() returned; only lower bounds are asserted; evaluations = callbacks + ordered pairs')
    c.assumptions = ['all instants are read from the clock the Timer reads (Tickval(true))', 'lateness is not part of the property']
    c.finish()
