"""C30: the bundled unbounded MPMC queue: stress on real threads + controlled schedules of the real code (hook H2)."""
from runner import Check


def c30(tier, seed):
    c = Check('C30', tier, seed)
    exe = c.build('asan', ['queue_mon'])['queue_mon']
    pexe = c.build('plain', ['queue_mon'])['queue_mon']
    q = c.quick
    c.run_cases(exe, ['--mode', 'stress'], 24 if q else 400, per_case_timeout=120, workers=8, label='stress')
    c.run_cases(pexe, ['--mode', 'random', '--schedules', '150' if q else '1500'], 32 if q else 400, per_case_timeout=300, workers=16, label='random')
    # one dfs case is a whole enumeration (up to 150000 re-executions in the thorough tier): its watchdog is sized for that
    c.run_cases(pexe, ['--mode', 'dfs', '--budget', '700' if q else '150000', '--bound', '2' if q else '3', '--case-seconds', '300' if q else '2800'], 8 if q else 16, per_case_timeout=3000, workers=16, label='dfs')
    if not q:
        texe = c.build('tsan', ['queue_mon'])['queue_mon']
        c.run_cases(texe, ['--mode', 'stress'], 60, per_case_timeout=300, workers=8, label='tsan')
    c.evaluations = c.stats.get('stress_elements', 0) + c.stats.get('schedules_random', 0) + c.stats.get('schedules_dfs', 0)
    c.distinct_names = ['schedule', 'stress_config']
    c.extra['plans_enumerated_completely_within_preemption_bound'] = c.stats.get('dfs_plans_enumerated_completely', 0)
    c.rule = ('(a) stress: 1..8 producers x 1..8 consumers on real threads, 200..120000 unique elements, seeded spin delays/yields at the hook '
              'points, on uMPMC_Ptr_Queue and both ff_unbounded_queue wrappers; half of the runs on the bare queue build it from 1-4 sub-queues '
              'of 2-16 slots, so that producers switch segments and consumers recycle them through the segment pool all the time (hook H3 '
              'adds delay points after every inner buffer operation); (b) controlled schedules of the REAL push/pop code: every thread '
              'parks at every hook point (loop head, after the ticket CAS, after the sub-buffer store/load, after the sequence store) and at every '
              'operation boundary; a scheduler picks the next thread - seeded random priorities with change points, and stateless depth-first '
              'enumeration with a pre-emption bound for 2-3 producers x 1-2 pushes x 1-2 consumers; 35% of the random-schedule cases use 1-2 '
              'sub-queues of 2-3 slots with 3-7 pushes per producer and park at the H3 points too (segment switch, pool cache hand-over); oracle from the tickets reported by the hooks: '
              'push tickets 0..N-1 each once, a pop holding ticket t returns the element pushed with ticket t, every element popped exactly once '
              'after a final drain, producer order kept, "empty" only if a possible head position was not yet published; evaluations = elements '
              '+ schedules; distinct = distinct schedules (hash of the thread/point sequence) + stress configurations')
    c.assumptions = ['interleavings are explored at hook granularity on x86-64 (TSO); weak-memory reorderings are out of reach',
                     'a thread re-entering a spin loop head is not rescheduled until another thread has moved (keeps schedules finite)',
                     'event clocks are stamped after the atomic step: reservations count as certain once stamped and as possible from the call on']
    c.finish()
