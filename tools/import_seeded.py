#!/usr/bin/env python3
"""Copies confirmed seeded changes from the scratch area into /verif/seeded/<property>-m<k>/ with a meta.json.
usage: import_seeded.py <confirm log> <detection log>..."""
import json
import os
import re
import shutil
import sys

VERIF = os.path.dirname(os.path.dirname(os.path.abspath(__file__)))
SRC = '/tmp/seeded_out'
confirm = {}
for line in open(sys.argv[1]):
    m = re.match(r'(C\d+/m\d+): build_rc=(\d+) tests_pass=(\d*) tests_fail=(\d*) demo_on_mutant_rc=(\d+) demo_on_clean_rc=(\d+)', line)
    if m:
        confirm[m.group(1)] = dict(build_rc=int(m.group(2)), tests_pass=int(m.group(3) or 0), tests_fail=int(m.group(4) or 0),
                                   demo_on_mutant_rc=int(m.group(5)), demo_on_clean_rc=int(m.group(6)))
detect = {}
for path in sys.argv[2:]:
    cur = None
    for line in open(path):
        m = re.match(r'### (C\d+/m\d+)', line)
        if m:
            cur = m.group(1)
            continue
        m = re.match(r'== (C\d+) rc=(\d+) (\d+) violation line\(s\):\s*(.*)', line)
        if m and cur:
            detect.setdefault(cur, {})[m.group(1)] = dict(rc=int(m.group(2)), violation_lines=int(m.group(3)),
                                                         keys=[k.strip().replace('key: ', '') for k in m.group(4).split(';') if k.strip()])
n = 0
for key, c in sorted(confirm.items()):
    prop, mk = key.split('/')
    ok = c['build_rc'] == 0 and c['tests_fail'] == 0 and c['tests_pass'] == 4 and c['demo_on_mutant_rc'] != 0 and c['demo_on_clean_rc'] == 0
    if not ok:
        print('NOT KEPT', key, c)
        continue
    dst = os.path.join(VERIF, 'seeded', '%s-%s' % (prop, mk))
    os.makedirs(dst, exist_ok=True)
    for f in ('patch.diff', 'demo.cpp', 'run.sh', 'notes.txt'):
        p = os.path.join(SRC, key, f)
        if os.path.exists(p):
            shutil.copy(p, os.path.join(dst, f))
    rebased = None
    ph = os.path.join(SRC, key, 'patch_head.diff')
    if os.path.exists(ph):
        # the sub-agent's patch no longer applies to /repo HEAD (a later fix touched the same lines): the same change carried over by hand
        shutil.copy(os.path.join(SRC, key, 'patch.diff'), os.path.join(dst, 'patch_orig.diff'))
        shutil.copy(ph, os.path.join(dst, 'patch.diff'))
        rebased = 'patch.diff is the same change carried over to the current /repo HEAD (context or surrounding code changed by a later fix); patch_orig.diff is what the sub-agent delivered and what was confirmed'
    notes = open(os.path.join(SRC, key, 'notes.txt')).read() if os.path.exists(os.path.join(SRC, key, 'notes.txt')) else ''
    meta = {
        'property': prop,
        'origin': 'independent sub-agent given only the property text and its own scratch worktree',
        'needs_to_manifest': notes.strip()[:1500],
        'confirmed_by_me': dict(c, how='scratch worktree of /repo: git apply, make, make -k check (4 test programs = the 31 tests), run.sh on the changed tree (must fail), git checkout, make, run.sh (must pass)'),
        'checks_run_against_it': detect.get(key, {}),
        'detected': any(v['rc'] == 1 for v in detect.get(key, {}).values()),
        'how_to_rerun': 'tools/try_seeded.sh seeded/%s-%s/patch.diff %s' % (prop, mk, ' '.join(sorted(detect.get(key, {prop: 0})))),
    }
    if rebased:
        meta['rebased'] = rebased
    json.dump(meta, open(os.path.join(dst, 'meta.json'), 'w'), indent=1)
    n += 1
print('kept', n)
