#!/usr/bin/env python3
"""Build fix8 (runtime, f8c, generated schema code) and the /verif harnesses from /repo's
current working tree, one output tree per sanitizer flavour.

Nothing is taken from /repo's autotools products.  ccache makes an unchanged translation unit free,
a content hash of the inputs makes an unchanged tree a no-op.
"""
import fcntl
import hashlib
import os
import subprocess
import sys
import time
from concurrent.futures import ThreadPoolExecutor

VERIF = os.path.dirname(os.path.dirname(os.path.abspath(__file__)))
REPO = os.environ.get('VERIF_REPO', '/repo')
WORK = os.environ.get('VERIF_WORK', os.path.join(VERIF, '.work'))
if os.path.abspath(REPO) != '/repo' and 'VERIF_WORK' not in os.environ:
    WORK = os.path.join(VERIF, '.work', 'alt_' + hashlib.sha1(os.path.abspath(REPO).encode()).hexdigest()[:10])
CCACHE_DIR = os.path.join(VERIF, '.cache', 'ccache')

RUNTIME_SRC = ['xml.cpp', 'f8utils.cpp', 'message.cpp', 'traits.cpp', 'session.cpp', 'logger.cpp',
               'persist.cpp', 'connection.cpp', 'configuration.cpp', 'filepersist.cpp', 'gzstream.cpp',
               'modp_numtoa.c']
F8C_SRC = ['f8c.cpp', 'f8cutils.cpp', 'f8precomp.cpp']

COMMON = ['-std=gnu++17', '-g', '-fno-omit-frame-pointer', '-DFIX8_VERIF=1', '-DHAVE_CONFIG_H', '-w',
          '-pthread']
FLAVOURS = {
    'asan': dict(cxx='g++', opt='-O1',
                 san=['-fsanitize=address,undefined', '-fno-sanitize=vptr,nonnull-attribute', '-fsanitize-recover=undefined']),
    'tsan': dict(cxx='g++', opt='-O1', san=['-fsanitize=thread']),
    'plain': dict(cxx='g++', opt='-O2', san=[]),
}
LIBS = ['-lPocoFoundation', '-lPocoNet', '-lPocoUtil', '-lPocoJSON', '-lz', '-lpthread', '-ldl', '-lrt']

# schemas compiled into every flavour: (prefix, namespace, schema file)
SCHEMAS = [('utest', 'UTEST', 'schema/FIX42UTEST.xml'), ('f44', 'F44', 'schema/FIX44.xml')]


def log(*a):
    print('[build]', *a, file=sys.stderr, flush=True)


def run(cmd, cwd=None, env=None, quiet=False):
    e = dict(os.environ)
    e['CCACHE_DIR'] = CCACHE_DIR
    e['CCACHE_BASEDIR'] = '/'
    if env:
        e.update(env)
    p = subprocess.run(cmd, cwd=cwd, env=e, stdout=subprocess.PIPE, stderr=subprocess.STDOUT, text=True)
    if p.returncode != 0:
        if not quiet:
            sys.stderr.write('[build] FAILED: %s\n%s\n' % (' '.join(cmd), p.stdout[-6000:]))
        raise RuntimeError('build step failed: ' + ' '.join(cmd[:6]))
    return p.stdout


def file_hash(paths):
    h = hashlib.sha256()
    for p in sorted(paths):
        h.update(p.encode())
        try:
            with open(p, 'rb') as f:
                h.update(f.read())
        except OSError:
            h.update(b'<missing>')
    return h.hexdigest()


def repo_inputs():
    out = []
    for d, exts in (('include/fix8', None), ('runtime', ('.cpp', '.c', '.hpp', '.h')),
                    ('compiler', ('.cpp', '.hpp', '.h'))):
        for root, _, files in os.walk(os.path.join(REPO, d)):
            for f in files:
                if exts is None or f.endswith(exts):
                    out.append(os.path.join(root, f))
    for _, _, s in SCHEMAS:
        out.append(os.path.join(REPO, s))
    return out


def compile_cmd(flavour, src, obj, opt=None, extra=()):
    fl = FLAVOURS[flavour]
    cxx = fl['cxx']
    if src.endswith('.c'):
        cmd = ['ccache', 'gcc', '-g', '-fno-omit-frame-pointer', '-w', opt or fl['opt']] + fl['san']
    else:
        cmd = ['ccache', cxx] + COMMON + [opt or fl['opt']] + fl['san']
    cmd += ['-I' + os.path.join(REPO, 'include'), '-I' + os.path.join(VERIF, 'harness')] + list(extra)
    cmd += ['-c', src, '-o', obj]
    return cmd


def par(cmds):
    with ThreadPoolExecutor(max_workers=int(os.environ.get('VERIF_JOBS', '16'))) as ex:
        list(ex.map(lambda c: run(c), cmds))


class Lock:
    def __init__(self, path):
        os.makedirs(os.path.dirname(path), exist_ok=True)
        self.f = open(path, 'w')

    def __enter__(self):
        fcntl.flock(self.f, fcntl.LOCK_EX)
        return self

    def __exit__(self, *a):
        fcntl.flock(self.f, fcntl.LOCK_UN)
        self.f.close()


def stamp_ok(path, h):
    try:
        return open(path).read().strip() == h
    except OSError:
        return False


def write_stamp(path, h):
    with open(path, 'w') as f:
        f.write(h)


def build_lib(flavour, tree_h):
    """runtime objects -> libfix8.a"""
    d = os.path.join(WORK, flavour)
    os.makedirs(os.path.join(d, 'obj'), exist_ok=True)
    st = os.path.join(d, 'lib.stamp')
    lib = os.path.join(d, 'libfix8.a')
    h = hashlib.sha256((tree_h + repr(FLAVOURS[flavour]) + repr(COMMON)).encode()).hexdigest()
    if stamp_ok(st, h) and os.path.exists(lib):
        return lib
    t = time.time()
    cmds, objs = [], []
    for s in RUNTIME_SRC:
        o = os.path.join(d, 'obj', s.rsplit('.', 1)[0] + '.o')
        objs.append(o)
        cmds.append(compile_cmd(flavour, os.path.join(REPO, 'runtime', s), o,
                                extra=['-I' + os.path.join(REPO, 'runtime')]))
    par(cmds)
    if os.path.exists(lib):
        os.unlink(lib)
    run(['ar', 'rcs', lib] + objs)
    write_stamp(st, h)
    log('%s: runtime library built in %.1fs' % (flavour, time.time() - t))
    return lib


def link_cmd(flavour, objs, out, extra=()):
    fl = FLAVOURS[flavour]
    return [fl['cxx']] + fl['san'] + ['-pthread', '-rdynamic', '-o', out] + objs + list(extra) + LIBS


def build_f8c(tree_h):
    """f8c is built in the asan flavour so the compiler itself is monitored whenever it runs."""
    flavour = 'asan'
    d = os.path.join(WORK, flavour)
    lib = build_lib(flavour, tree_h)
    exe = os.path.join(d, 'f8c')
    st = os.path.join(d, 'f8c.stamp')
    if stamp_ok(st, tree_h) and os.path.exists(exe):
        return exe
    t = time.time()
    cmds, objs = [], []
    for s in F8C_SRC:
        o = os.path.join(d, 'obj', 'f8c_' + s[:-4] + '.o')
        objs.append(o)
        cmds.append(compile_cmd(flavour, os.path.join(REPO, 'compiler', s), o,
                                extra=['-I' + os.path.join(REPO, 'compiler')]))
    par(cmds)
    run(link_cmd(flavour, objs, exe, [lib]))
    write_stamp(st, tree_h)
    log('f8c (asan) built in %.1fs' % (time.time() - t))
    return exe


F8C_ENV = {'ASAN_OPTIONS': 'detect_leaks=0:abort_on_error=0:exitcode=99',
           'UBSAN_OPTIONS': 'halt_on_error=0:print_stacktrace=1'}


def run_f8c(f8c, args, cwd):
    e = dict(os.environ)
    e.update(F8C_ENV)
    return subprocess.run([f8c] + args, cwd=cwd, env=e, stdout=subprocess.PIPE, stderr=subprocess.STDOUT,
                          text=True)


def gen_schemas(tree_h):
    """run f8c over the stock schemas (no -F custom fields), output in WORK/gen"""
    g = os.path.join(WORK, 'gen')
    os.makedirs(g, exist_ok=True)
    st = os.path.join(g, 'gen.stamp')
    if stamp_ok(st, tree_h):
        return g
    f8c = build_f8c(tree_h)
    t = time.time()

    def one(s):
        prefix, ns, schema = s
        p = run_f8c(f8c, ['-p', prefix, '-n', ns, '-o', g, os.path.join(REPO, schema)], g)
        with open(os.path.join(g, prefix + '.f8c.log'), 'w') as f:
            f.write(p.stdout)
        if p.returncode != 0:
            sys.stderr.write(p.stdout[-4000:])
            raise RuntimeError('f8c failed on ' + schema)
    with ThreadPoolExecutor(max_workers=4) as ex:
        list(ex.map(one, SCHEMAS))
    write_stamp(st, tree_h)
    log('schemas generated in %.1fs' % (time.time() - t))
    return g


def build_schema_lib(flavour, tree_h):
    d = os.path.join(WORK, flavour)
    g = gen_schemas(tree_h)
    lib = os.path.join(d, 'libschemas.a')
    st = os.path.join(d, 'schemas.stamp')
    h = hashlib.sha256((tree_h + repr(FLAVOURS[flavour])).encode()).hexdigest()
    if stamp_ok(st, h) and os.path.exists(lib):
        return lib
    t = time.time()
    cmds, objs = [], []
    for prefix, ns, _ in SCHEMAS:
        for part in ('types', 'traits', 'classes'):
            o = os.path.join(d, 'obj', '%s_%s.o' % (prefix, part))
            objs.append(o)
            cmds.append(compile_cmd(flavour, os.path.join(g, '%s_%s.cpp' % (prefix, part)), o,
                                    opt='-O0' if flavour != 'plain' else '-O1', extra=['-I' + g]))
    par(cmds)
    if os.path.exists(lib):
        os.unlink(lib)
    run(['ar', 'rcs', lib] + objs)
    write_stamp(st, h)
    log('%s: schema code built in %.1fs' % (flavour, time.time() - t))
    return lib


# harness name -> (sources, needs schema lib, extra link flags)
HARNESSES = {}


def harness(name, srcs=None, schemas=True, extra=()):
    HARNESSES[name] = (srcs or [name + '.cpp'], schemas, list(extra))


harness('prim_exec', schemas=True)
harness('codec_exec', schemas=True)
harness('persist_model', schemas=True)
harness('persist_crash', schemas=False)
harness('logger_stress', schemas=False)
harness('rotate_fs', schemas=False)
harness('xml_tree', schemas=False)
harness('timer_mon', schemas=False)
harness('sched_mon', schemas=False)
harness('queue_mon', schemas=False)
harness('session_sim', schemas=True)
harness('reader_frame', schemas=True)
harness('conc_send', schemas=True)
harness('two_sessions', schemas=True)


def build(flavour, names):
    """Build the named harnesses in the given flavour; returns {name: exe path}."""
    with Lock(os.path.join(WORK, 'build.lock')):
        tree_h = file_hash(repo_inputs())
        lib = build_lib(flavour, tree_h)
        d = os.path.join(WORK, flavour)
        g = os.path.join(WORK, 'gen')
        out = {}
        todo = []
        slib = None
        for n in names:
            srcs, need_schema, extra = HARNESSES[n]
            spaths = [os.path.join(VERIF, 'harness', s) for s in srcs]
            hdrs = [os.path.join(VERIF, 'harness', f) for f in os.listdir(os.path.join(VERIF, 'harness'))
                    if f.endswith(('.hpp', '.h'))]
            h = hashlib.sha256((tree_h + file_hash(spaths + hdrs) + repr(FLAVOURS[flavour])).encode()).hexdigest()
            exe = os.path.join(d, n)
            out[n] = exe
            if need_schema and slib is None:
                slib = build_schema_lib(flavour, tree_h)
            if stamp_ok(exe + '.stamp', h) and os.path.exists(exe):
                continue
            todo.append((n, spaths, need_schema, extra, h))
        if todo:
            t = time.time()
            cmds = []
            for n, spaths, need_schema, extra, h in todo:
                for s in spaths:
                    o = os.path.join(d, 'obj', 'h_%s_%s.o' % (n, os.path.basename(s).rsplit('.', 1)[0]))
                    cmds.append(compile_cmd(flavour, s, o, extra=['-I' + g, '-I' + os.path.join(REPO, 'runtime')]))
            par(cmds)
            lcmds = []
            for n, spaths, need_schema, extra, h in todo:
                objs = [os.path.join(d, 'obj', 'h_%s_%s.o' % (n, os.path.basename(s).rsplit('.', 1)[0]))
                        for s in spaths]
                libs = ([slib] if need_schema else []) + [lib]
                lcmds.append(link_cmd(flavour, objs, os.path.join(d, n), libs + extra))
            par(lcmds)
            for n, spaths, need_schema, extra, h in todo:
                write_stamp(os.path.join(d, n) + '.stamp', h)
            log('%s: harnesses %s built in %.1fs' % (flavour, ','.join(t_[0] for t_ in todo), time.time() - t))
        return out


def build_gen(flavour, gdir, schema_xml, extra_f8c=()):
    """f8c (asan build) over one generated schema -> gen_*.cpp in gdir -> compile with meta_dump and codec_exec (VERIF_GEN_SCHEMA).
    Returns dict(f8c_rc, f8c_out, compile_ok, compile_out, meta_dump, codec_exec)."""
    with Lock(os.path.join(WORK, 'build.lock')):
        tree_h = file_hash(repo_inputs())
        f8c = build_f8c(tree_h)
        lib = build_lib(flavour, tree_h)
    os.makedirs(gdir, exist_ok=True)
    res = {'compile_ok': False, 'compile_out': ''}
    p = run_f8c(f8c, ['-p', 'gen', '-n', 'GEN', '-o', gdir] + list(extra_f8c) + [schema_xml], gdir)
    res['f8c_rc'], res['f8c_out'] = p.returncode, p.stdout
    if p.returncode != 0 or not os.path.exists(os.path.join(gdir, 'gen_classes.cpp')):
        return res
    fl = FLAVOURS[flavour]
    jobs = []
    objs = {}
    for src, name, defs in [(os.path.join(gdir, 'gen_types.cpp'), 'types', []), (os.path.join(gdir, 'gen_traits.cpp'), 'traits', []),
                            (os.path.join(gdir, 'gen_classes.cpp'), 'classes', []),
                            (os.path.join(VERIF, 'harness', 'meta_dump.cpp'), 'meta_dump', []),
                            (os.path.join(VERIF, 'harness', 'codec_exec.cpp'), 'codec_exec', ['-DVERIF_GEN_SCHEMA=1'])]:
        o = os.path.join(gdir, name + '.o')
        objs[name] = o
        jobs.append(compile_cmd(flavour, src, o, opt='-O0', extra=['-I' + gdir, '-I' + os.path.join(REPO, 'runtime')] + defs))
    outs = []

    def one(c):
        e = dict(os.environ)
        e['CCACHE_DIR'] = CCACHE_DIR
        q = subprocess.run(c, env=e, stdout=subprocess.PIPE, stderr=subprocess.STDOUT, text=True)
        return q.returncode, q.stdout
    with ThreadPoolExecutor(max_workers=5) as ex:
        outs = list(ex.map(one, jobs))
    bad = [o for rc, o in outs if rc != 0]
    if bad:
        res['compile_out'] = '\n'.join(bad)[-3000:]
        return res
    for exe in ('meta_dump', 'codec_exec'):
        rc, o = one(link_cmd(flavour, [objs[exe], objs['types'], objs['traits'], objs['classes']], os.path.join(gdir, exe), [lib]))
        if rc != 0:
            res['compile_out'] = o[-3000:]
            return res
        res[exe] = os.path.join(gdir, exe)
    res['compile_ok'] = True
    return res


def f8c_path():
    with Lock(os.path.join(WORK, 'build.lock')):
        return build_f8c(file_hash(repo_inputs()))


if __name__ == '__main__':
    import argparse
    ap = argparse.ArgumentParser()
    ap.add_argument('flavour')
    ap.add_argument('names', nargs='*')
    a = ap.parse_args()
    if a.flavour == 'all':
        # what the quick commands use; anything else (thorough tiers) is built on demand by the check that needs it
        have = [n for n in HARNESSES if os.path.exists(os.path.join(VERIF, 'harness', HARNESSES[n][0][0]))]
        build('asan', have)
        build('plain', [n for n in ('persist_crash', 'queue_mon') if n in have])
        build('tsan', [n for n in ('conc_send',) if n in have])
    else:
        print(build(a.flavour, a.names))
