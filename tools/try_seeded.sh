#!/bin/bash
# usage: try_seeded.sh <patch.diff> <check id>...   -- applies the patch to a scratch worktree of /repo (never to /repo itself),
# runs the quick checks against it through VERIF_REPO, prints one line per check, removes the worktree.
P=$(realpath "$1"); shift
D=/tmp/seedtry.$$
git -C /repo worktree add --detach $D HEAD >/dev/null 2>&1 || exit 2
cp /repo/include/fix8/f8config.h $D/include/fix8/
if ! git -C $D apply "$P"; then echo "PATCH DOES NOT APPLY: $P"; git -C /repo worktree remove --force $D; exit 2; fi
for id in "$@"; do
  out=$(cd /verif && VERIF_REPO=$D python3 check.py $id --tier ${TIER:-quick} 2>&1)
  rc=$?
  echo "== $id rc=$rc $(echo "$out" | grep -c '^VIOLATION') violation line(s): $(echo "$out" | grep -m3 '  key:' | tr '\n' ';' | cut -c1-300)"
  [ -n "$VERBOSE" ] && echo "$out" | tail -15
done
W=$(cd /verif && VERIF_REPO=$D python3 -c "import sys; sys.path.insert(0,'tools'); import build; print(build.WORK)")
rm -rf "$W"
git -C /repo worktree remove --force $D
