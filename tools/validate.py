#!/usr/bin/env python3-vt
import json, sys, glob, jsonschema
m = json.load(open('/verif/MANIFEST.json'))
jsonschema.validate(m, json.load(open('/root/.vp/MANIFEST.schema.json')))
es = json.load(open('/root/.vp/EVIDENCE.schema.json'))
bad = 0
for c in m['checks']:
    p = c['evidence_file']
    try:
        e = json.load(open(p))
        jsonschema.validate(e, es)
        assert e['level'] == c['level_claimed']['category'], 'level mismatch'
    except Exception as ex:
        bad += 1
        print('BAD', p, str(ex)[:200])
props = [json.loads(l)['id'] for l in open('/verif/properties.jsonl')]
claimed = {c['property_id'] for c in m['checks']}
na = {x['property_id'] for x in m.get('not_applicable', [])}
assert claimed | na == set(props) and not (claimed & na), 'claimed/not_applicable do not partition the properties'
print('manifest ok, %d checks, %d bad evidence' % (len(m['checks']), bad))
sys.exit(1 if bad else 0)
