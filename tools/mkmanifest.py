#!/usr/bin/env python3
"""Regenerates /verif/MANIFEST.json from the table below (keeps it valid and in one place)."""
import json
import os
import subprocess

VERIF = os.path.dirname(os.path.dirname(os.path.abspath(__file__)))

# id: (engine, category, technique, level text, level note, design ref)
CHECKS = {
    'C01': ('codec_exec', 'exploration', 'runtime oracle: independent schema-directed wire parser + intended content vs encode/factory/re-encode of the real codec, under ASan+UBSan',
            'Thousands of generated messages per run cover every message type of both schemas, optional-field subsets, type-domain values (negative/boundary ints, floats, '
            'printable strings with "=", ms timestamps, Length/data pairs) and nested groups; the wire is compared token by token with the intended content, the decoded object with '
            'the wire, and the re-encoding byte for byte.',
            'Independent schema model and tokenizer (pylib); fields are built from text through the metadata factory.', '3 C01'),
    'C02': ('codec_exec', 'exploration', 'runtime oracle: independent tokenizer recomputes preamble order, BodyLength, CheckSum, token syntax, section order, position order and group structure of every encoded message',
            'Same generator as C01 with shuffled insertion order; both encode(f8String&) and encode(char**) paths; every clause of the statement is recomputed from the bytes and the independent schema model.',
            'Schema position order = document order with components expanded (independent model).', '3 C02'),
    'C03': ('codec_exec', 'exploration', 'sanitizers (ASan+UBSan) + exception-type oracle + per-case watchdog over structure-aware hostile inputs to the factory (4 mode combinations) and oversized values into both encode entry points',
            'Tens of thousands of mutated messages per run (17 mutation operators aimed at tag/value lengths, separators, counts, Length fields, the preamble, short inputs, binary bytes) are fed '
            'as exact-size heap strings; every outcome must be a message or an f8Exception. Encoding is driven with values of 1..20000 bytes, with sizes aimed at the limit. '
            'One recorded finding: messages whose encoding exceeds the maximum message length overflow the output buffer.',
            'Inputs <= 8192 bytes; red zones catch adjacent overflows only; leaks are not checked.', '3 C03'),
    'C04': ('codec_exec', 'exploration', 'runtime oracle: independent conformance predicate (schema model) decides each generated input; strict factory verdict and decoded content compared with it',
            'Reference-rendered messages with one of 19 injected defect classes (unknown/misplaced tags incl. after the last mandatory field, duplicates, missing mandatory fields, '
            'elements without their first field, tags >= 65536, wrong checksum, leading-zero numerics). Non-conforming input must throw; accepted input must decode to exactly the input tokens.',
            'Only the stated direction (non-conforming => throws; accepted => faithful). Field order and group-count agreement are not among the stated conditions.', '3 C04'),
    'C05': ('codec_exec', 'exploration', 'runtime oracle: strict decoding of the clean message as reference for known fields; token-multiset equality of the re-encoding with the input',
            'Conforming messages with 1..3 dictionary-unknown tokens inserted at 8 kinds of place (header, section boundaries, body, trailer, between/inside/after group elements) must be accepted '
            'in permissive mode, decode every known field as strict mode does, and re-encode to exactly the input tokens with a valid frame.',
            'Where unknown fields are re-emitted is not prescribed (multiset comparison).', '3 C05'),
    'C06': ('codec_exec', 'exploration', 'runtime oracle: every Length/data pair of both schemas x payload classes, through the API round trip and through reference-rendered bytes, under ASan+UBSan',
            'All pairs the independent schema model finds (header, body, trailer, groups) are exercised with printable, SOH, "=", SOH+"10=", high-bit, NUL, 1-byte and 2047-byte payloads; '
            'the payload and all following fields must decode identically. One recorded finding (NUL truncation).',
            'Payload <= 2047 bytes; NUL payloads only on the decode side.', '3 C06'),
    'C07': ('prim_exec', 'exploration', 'runtime oracle (naive byte sum) + ASan red zones/UBSan over enumerated and random (size, offset, length) geometries',
            'Every (sz,off,len) with sz<=40 is enumerated and ~300k larger geometries sampled per quick run on exact-size heap buffers; an out-of-range read '
            'adjacent to the buffer or a wrong sum is reported with the failing geometry. Exploration, not proof: sizes above 40 are sampled.',
            'gcc ASan/UBSan runtimes; red zones only catch accesses adjacent to the buffer.', '3 C07'),
    'C08': ('prim_exec', 'exploration', 'runtime oracle: snprintf for ints (thorough: all 2^32 values), exact 128-bit rational rounding oracle for modp_dtoa/fast_atof, under ASan+UBSan',
            'Ints: boundaries, |v|<2^17 and millions of random values per quick run, the whole int32 range in the thorough run. Floats: correct rounding decided exactly '
            '(no floating point in the oracle) over random bit patterns, decimals, constructed near-ties, rollover and near-2^31 values.',
            '"half a unit in the last place" for parsing is read as the last decimal place of the text or an adjacent double; two recorded findings (near-tie misrounding, >15 digits).', '3 C08'),
    'C09': ('prim_exec', 'exploration', 'runtime oracle: independent civil-calendar algorithm vs the real field codecs, factorised exhaustion of all days 1970..2099, under ASan+UBSan',
            'Every day of the range is rendered and parsed at 20 (second, millisecond) combinations for all five date/time field types, 24 special days get whole hours of seconds '
            'and all millisecond values, log timestamps are checked incl. fractions that round up.',
            'TZ=UTC; the calendar reference is the days-from-civil algorithm, not libc.', '3 C09'),
    'C10': ('prim_exec', 'exploration', 'runtime oracle: set membership from an independent parse of the schema XML vs get_rlm_idx / descriptions / is_valid / print_field on every enumerated field',
            'All 350 enumerated fields of FIX42UTEST and FIX44 are probed with every byte value (chars), [min-50,max+50] (ints) and all short strings over the members\' alphabet (strings).',
            'Independent schema model (pylib/fixschema.py); only set domains exist in the stock schemas.', '3 C10'),
    'C11': ('codec_exec', 'exploration', 'runtime oracle: byte equality of encode(clone(m)), encode(copy_legal target), encode(move_legal target) with encode(m) on generated messages, under ASan+UBSan',
            'C01\'s generator incl. nested and zero-count groups and header groups; the source encoding is taken from an identically built twin; ASan watches ownership of moved fields and groups.',
            'SendingTime fixed by the script so encodings are comparable.', '3 C11'),
    'C12': ('prim_exec', 'exploration', 'runtime oracle: independent schema model vs generated tables for all 65536 keys per section; std::set model vs presorted_set under ASan',
            'All 16-bit keys are tried on the field table and on the trait set of a live instance of every message, header, trailer and nested group of both schemas; names and near misses '
            'on the message/reverse tables; thousands of random op histories on both presorted_set templates.',
            'Independent schema model; ASan for the memmove/memcpy paths.', '3 C12'),
    'C13': ('f8c_pipeline', 'exploration', 'runtime oracle over a generated program family: random schemas -> f8c (ASan/UBSan build) -> g++ -> metadata read back by reflection and compared with an independent parse of the same XML -> round trips through the generated codec',
            'A dozen schemas per quick run (hundreds in thorough), each with 22 field types, enumerations, components, nested and reused groups, custom field numbers; every field, enumerated value, message, section, member order, type, mandatory and '
            'group flag is compared, then 150+ generated messages per schema are encoded, parsed independently, decoded and re-encoded.',
            'TZ time types are not generated; count fields may carry the base int type in the traits; fields used by no message are not emitted by f8c (by design).', '3 C13'),
    'C14': ('f8c_pipeline', 'exploration', 'as C13, on schemas that use one count field with two different definitions: random differences and definitions constructed to collide under the compiler\'s structural hash (hash re-implemented and self-checked)',
            'Both messages carrying the variant group are built with their own members and round-tripped; the compiled members of both group definitions are read back.',
            'The collision construction relies on rothash being XOR-linear; if the compiler\'s hash changes the evidence says so (hash_selfcheck_ok) and no alarm is raised.', '3 C14'),
    'C15': ('reader_frame', 'exploration', 'runtime monitor: the strings the real FIXReader hands to an overridden Session::process vs the generated stream, over real loopback TCP with seeded chunkings; ASan/UBSan (thorough adds TSan)',
            'Hundreds of streams per run (0..40 valid messages, body sizes across the 1/2/3/4-digit BodyLength edges up to the maximum) in 6 chunkings incl. byte-by-byte and splits inside the preamble, in pm_thread and pm_pipeline, '
            'optionally followed by one of 11 preamble corruptions; valid streams must be handed on exactly, after a corruption nothing corrupt may be handed on and the reader must stop.',
            'A valid stream is kept open until everything was handed on; the 20 s wait for the reader to stop is a watchdog.', '3 C15'),
    'C16': ('session_sim', 'exploration', 'runtime monitor over recorded histories: wire bytes read from the peer socket + session counters + persisted control record at every quiescent point vs a numbering model',
            'Thousands of histories (5..60 steps) of application sends, batches, administrative sends, in-sequence inbound traffic, resend requests and restarts with recovery on one real Session '
            '(acceptor/initiator, file/memory persister, recovered or explicit start numbers); every new message must carry the next number and the control record must equal the counters after every command.',
            'Single-threaded process model (pm_coro) on a loopback socket; concurrency is C25, gaps are C19/C20. A gap fill announcing a number beyond the next one moves the numbering there.', '3 C16'),
    'C17': ('session_sim', 'exploration', 'runtime monitor: every new message seen on the wire is read back from the persister by number and compared byte for byte (application) / must be absent (administrative)',
            'Same histories as C16 (every history mixes single sends, batches and administrative sends; file and memory persisters); read-back happens before every restart and at the end.',
            'Wire bytes are those read from the peer socket.', '3 C17'),
    'C18': ('session_sim', 'exploration', 'runtime monitor: the reply to each ResendRequest is walked against an independent model of the sent log (which numbers are stored application messages)',
            'Random patterns of stored and unstored numbers, 8 kinds of request range (inside, to infinity, single, from 1, end/begin beyond the latest, whole; one or two requests, the last one in a quarter of the cases itself numbered ahead of sequence), file/memory/no persister; '
            'replays must be complete, ascending, PossDup with OrigSendingTime = original SendingTime and identical bodies; gap fills must carry the first number of their gap and skip nothing stored.',
            'NewSeqNo may extend over numbers without a stored message; numbers above the latest sent need no cover.', '3 C18'),
    'C19': ('session_sim', 'exploration', 'runtime monitor: independent receive-side model (expected number advances only on an in-sequence message or a SequenceReset) over recorded inbound histories, deliveries and outbound reactions',
            'Thousands of inbound histories mixing in-sequence, ahead, too-low, PossDup (good/absent/bad OrigSendingTime), wrong-CompID, corrupt messages, header values containing "34=" and inbound gap fills, '
            'with enforcement on/off, acceptor/initiator, with and without an outstanding resend request; each delivery must be justified by the rule and each required reaction '
            '(ResendRequest from the expected number, Logout + termination, Reject) must be on the wire.',
            'Delivery = the router callback ran. One-directional where the statement is; whether a rejected message consumes its number follows the session.', '3 C19'),
    'C20': ('session_sim', 'exploration', 'closed-loop runtime monitor: an executable reference model of a conformant counterparty answers the real session; bounded-progress verdict at wire idle',
            'Plans of 3..30 counterparty messages with up to 3 loss windows and up to 2 disconnects (counterparty keeps numbering; reconnect Logon above the expected number), answers to resend requests deferred while the counterparty goes on sending, resend requests of the counterparty\'s own (the same range is then replayed twice), acceptor/initiator, '
            'file/memory persister; verdict: no sequence-related Logout/Reject/termination, every application id delivered at least once, expected number == counterparty next, state continuous.',
            'Liveness restated as bounded progress (at most 6x(messages+gaps)+40 exchanges until the wire is idle).', '3 C20'),
    'C21': ('two_sessions', 'exploration', 'runtime monitor: offline checker over the delivery logs of two real sessions (real threads, loopback TCP, file persisters) driven through seeded schedules of sends, connection drops, partitions (forwarding thread swallowing both directions) and restarts, with sends continuing during recovery',
            'Dozens of schedules per quick run (1500 in thorough) with up to 25 steps and on average 5 faults each, faults hitting traffic in flight, sends into dead connections; at-least-once delivery, first-delivery order, '
            'PossDup on re-delivery and re-establishment after every reconnect are decided at logical quiescent points; established sessions that do not agree after 25 numbered heartbeat exchanges are reported as stuck.',
            'Liveness is judged at quiescence with a 60 s watchdog (inconclusive); both sides are rebuilt after every fault; timers stopped with a heartbeat nudge.', '3 C21'),
    'C22': ('session_sim', 'exploration', 'runtime monitor on a virtual clock: timeline model of last-sent/last-received instants decides every supervision tick and every inbound test request',
            'Timelines of up to 80 events with advances placed at H-1ms, H, H+1ms, 1.2H, 1.2H+1ms, floor(1.2H)+1 s for H in {1,2,5,7,10,30,60}; Heartbeat when due, TestRequest not early and not late, '
            'Logout only after a further period, TestReqID echoed, answering Heartbeat restores continuous. One recorded finding (Logout at the tick after the TestRequest; pinned by the repository\'s own test).',
            'clock_gettime(CLOCK_REALTIME) interposed in the harness; the second between 1.2H and floor(1.2H)+1 s is free.', '3 C22'),
    'C23': ('session_sim', 'exploration', 'runtime oracle: direct predicates over all CompID/flag/client-list combinations on a real acceptor and initiator; SessionID ==/!= over all 81 identity pairs (exhaustive)',
            'Acceptor logon completes iff TargetCompID matches (when enforced) and the sender is listed (when a list exists); reply echoes HeartBtInt; reset flag resets both numbers; initiator accepts only mirrored CompIDs '
            'when enforcing; != is the negation of ==.',
            '3-letter CompID alphabet; "mismatch" = the initiator does not reach the established state.', '3 C23'),
    'C24': ('sched_mon', 'exploration', 'runtime monitor on a virtual clock: Schedule::test stepped every 20-60 s over three weeks vs independently computed window membership; decode_dow vs a reference decoder over all strings up to 3 characters',
            'Hundreds of schedules per run (daily, weekly, weekly wrapping the week end, weekly on a single weekday incl. the configuration default), built directly and from XML, utc offsets -720..+840, both initial '
            'states, ~45 000 check instants each; decode_dow exhaustively over a 100-byte alphabet (about one million strings).',
            'clock_gettime(CLOCK_REALTIME) interposed in the harness; what follows the unique day prefix is not examined.', '3 C24'),
    'C25': ('conc_send', 'exploration', 'ThreadSanitizer build (with hook H1) + runtime oracle over the bytes read from the peer socket and the persister read-back, under 2..8 concurrent sender threads, with resend requests served by the receiving thread while they send',
            'Hundreds of runs (pm_thread/pm_pipeline x file/memory persister, send and send_batch mixed, seeded yields) with 40..1600 messages each: the wire stream must split into whole messages numbered consecutively in wire order, '
            'each id once, store == wire; in 45% of the runs the peer asks for resends meanwhile: every number certainly stored when it asked must come back as a PossDup copy of what was transmitted, ascending, never gap-filled; TSan reports outside the ff:: suppression are violations; the same workload also runs under ASan+UBSan.',
            'Only interleavings that occurred are judged; FastFlow internals are trusted (suppression race:^ff::) and tested functionally by C30.', '3 C25'),
    'C26': ('persist_model', 'exploration', 'model-based history checking: every API return of MemoryPersister/FilePersister vs a std::map + control-pair model, under ASan+UBSan',
            'Thousands of random histories (up to 120 operations, small key spaces so that collisions, refusals and empty ranges are frequent, reopen for the file store) '
            'are compared call by call with the model derived from the property text; range retrieval is observed through the retransmission callback.',
            'Payloads up to the 8192-byte message limit; single-threaded use of a persister (as the session does under its lock).', '3 C26'),
    'C27': ('persist_crash', 'fault_enumeration', 'crash-point enumeration: child process killed after every k-th completed write/lseek (symbol interposition), store reopened and checked by an oracle',
            'For each generated script every crash point is enumerated (not sampled); after each crash the store is reopened in a fresh process, checked against the set of '
            'completed / in-flight operations, used for further stores including the in-flight number, and reopened again.',
            'Process-crash model (completed system calls persist); plain build for the fork-heavy enumeration, the same code runs under ASan in C26.', '3 C27'),
    'C28': ('logger_stress', 'exploration', 'offline checker over recorded submit events (logical clock) and the log file read when stop() returned; real producer threads; ASan (thorough adds TSan)',
            'Hundreds of runs with 1..8 producers, random level masks and stop() either after the producers or racing them; the checker decides exactly-once, per-producer order, '
            'consecutive sequence numbers, level filtering, the submit result and that stop() returned only after all accepted lines were in the file.',
            'Logical clock = one atomic counter; "submitted before stop" means send() returned before stop() was called.', '3 C28'),
    'C29': ('rotate_fs', 'exploration', 'directory snapshot oracle before/after rotation for counts 0..5000 x logger/persister modes x pre-existing generation sets, under ASan',
            'Every rotation entry point (FileLogger ctor, rotate(force) on append logs, second rotation, FilePersister purge with index files) is run on directories with generated '
            'generation sets and bystander files; contents identify the original file so shifts are checked exactly; counts above the 1024 cap are included.',
            'Where name.(k-1) did not exist the statement is silent about name.k.', '3 C29'),
    'C30': ('queue_mon', 'exploration', 'runtime monitor with hooks H2 and H3: exact ticket oracle over recorded push/pop events, under real-thread stress and under controlled schedules (seeded random and depth-first enumeration with a pre-emption bound) of the real queue code',
            'Half a million elements through 1..8 x 1..8 real threads with injected delays, plus about ten thousand distinct controlled schedules per quick run (far more in thorough, incl. pre-emption bound 3) in which every thread parks '
            'at every point between the atomic steps of push and pop (and, for queues built from tiny segments, after every inner buffer operation of segment switching and recycling); ticket equality, exactly-once, producer order and the empty-return rule are decided exactly from the hook events.',
            'Hook granularity, x86-64 TSO; not all interleavings: enumeration is bounded by pre-emptions and budget (evidence says which plans completed).', '3 C30'),
    'C31': ('timer_mon', 'exploration', 'runtime monitor on real Timer threads: lower-bound oracle on callback entry instants (same clock as the Timer), due-order by a global atomic ticket, repeat counts, spacing of repeats (with slack, reproduced 3 of 3), silence after clear()',
            'Hundreds of timers per run with 1..3 rounds of events (delays 1..200 ms, repeats, callbacks returning false, slow callbacks), clear() at random moments and re-scheduling afterwards.',
            'Only lower bounds and order are asserted, never lateness.', '3 C31'),
    'C32': ('xml_tree', 'exploration', 'generator tree as reference vs parsed XmlElement tree (tags, decoded attributes, text, child order, path lookups); mutated/random bytes under ASan+UBSan',
            'Thousands of generated documents per run exercise every reference spelling, quoting and whitespace variation the generator knows, including reference-looking literal '
            'text; tens of thousands of corrupted documents must produce a tree or XMLError.',
            'Extensions (${env}, !{shell}, xi:include) disabled/not generated.', '3 C32'),
}

NOT_YET = 'check not built yet in this round (planned, see DESIGN.md section 3)'


def main():
    props = [json.loads(l)['id'] for l in open(os.path.join(VERIF, 'properties.jsonl'))]
    checks = []
    for pid in props:
        if pid not in CHECKS:
            continue
        eng, cat, tech, text, note, ref = CHECKS[pid]
        checks.append({
            'property_id': pid,
            'quick_cmd': 'python3 check.py %s --tier quick' % pid,
            'thorough_cmd': 'python3 check.py %s --tier thorough' % pid,
            'evidence_file': '/verif/evidence/%s.json' % pid,
            'replay_cmd_template': 'python3 check.py %s --replay {path}' % pid,
            'engine': eng,
            'level_claimed': {'category': cat, 'text': text, 'design_ref': 'DESIGN.md ' + ref},
            'level_note': note,
            'technique': tech,
        })
    hooks = subprocess.run(['git', '-C', '/repo', 'log', '--format=%h %s'], stdout=subprocess.PIPE, text=True).stdout
    hook_commits = [l.split()[0] for l in hooks.splitlines() if l.split(' ', 1)[1].startswith('verif hook')]
    man = {
        'version': 1,
        'setup_cmd': 'python3 tools/build.py all',
        'hooks': {
            'guard': 'FIX8_VERIF',
            'enable': 'tools/build.py compiles /repo sources and the harnesses with -DFIX8_VERIF=1 (own build, not the autotools products)',
            'baseline_off_cmd': 'make -C /repo -j16 && make -C /repo -k check',
            'source_commits': hook_commits,
            'add_only': True,
        },
        'engines': [
            {'name': 'prim_exec', 'path': 'harness/prim_exec.cpp', 'serves_properties': ['C07', 'C08', 'C09', 'C10', 'C12'],
             'kind_free_text': 'micro-monitors: real primitive + oracle from the property text, ASan/UBSan build'},
            {'name': 'codec_exec', 'path': 'harness/codec_exec.cpp', 'serves_properties': ['C01', 'C02', 'C03', 'C04', 'C05', 'C06', 'C11'],
             'kind_free_text': 'generic reflection-driven codec executor; generator and oracles in pylib/fixgen.py, pylib/fixwire.py, checks/codec.py'},
            {'name': 'session_sim', 'path': 'harness/session_sim.cpp', 'serves_properties': ['C16', 'C17', 'C18', 'C19', 'C20', 'C22', 'C23'],
             'kind_free_text': 'one real Session on a real connection (pm_coro, loopback TCP, virtual clock, timer thread stopped) driven interactively; python FIX session models in checks/session.py'},
            {'name': 'sched_mon', 'path': 'harness/sched_mon.cpp', 'serves_properties': ['C24'], 'kind_free_text': 'Schedule::test on a virtual clock vs window membership; decode_dow vs reference decoder'},
            {'name': 'reader_frame', 'path': 'harness/reader_frame.cpp', 'serves_properties': ['C15'], 'kind_free_text': 'real connection reader vs generated streams and chunkings'},
            {'name': 'conc_send', 'path': 'harness/conc_send.cpp', 'serves_properties': ['C25'], 'kind_free_text': 'concurrent senders, wire reader that also issues resend requests, store read-back, replay oracle; tsan and asan flavours'},
            {'name': 'f8c_pipeline', 'path': 'checks/f8c.py', 'serves_properties': ['C13', 'C14'], 'kind_free_text': 'pylib/schemagen.py + tools/build.py build_gen + harness/meta_dump.cpp + codec_exec compiled against the generated schema'},
            {'name': 'two_sessions', 'path': 'harness/two_sessions.cpp', 'serves_properties': ['C21'], 'kind_free_text': 'initiator + acceptor in one process behind a forwarding thread, fault schedules incl. partitions, delivery-log checker'},
            {'name': 'persist_model', 'path': 'harness/persist_model.cpp', 'serves_properties': ['C26'], 'kind_free_text': 'random API histories vs map model'},
            {'name': 'persist_crash', 'path': 'harness/persist_crash.cpp', 'serves_properties': ['C27'], 'kind_free_text': 'fork + write/lseek countdown crash injection, reopen oracle'},
            {'name': 'logger_stress', 'path': 'harness/logger_stress.cpp', 'serves_properties': ['C28'], 'kind_free_text': 'producer threads + offline exactly-once/order checker'},
            {'name': 'rotate_fs', 'path': 'harness/rotate_fs.cpp', 'serves_properties': ['C29'], 'kind_free_text': 'rotation vs directory snapshots'},
            {'name': 'queue_mon', 'path': 'harness/queue_mon.cpp', 'serves_properties': ['C30'], 'kind_free_text': 'stress + cooperative scheduler over hooks H2/H3, ticket oracle'},
            {'name': 'timer_mon', 'path': 'harness/timer_mon.cpp', 'serves_properties': ['C31'], 'kind_free_text': 'real timers, lower-bound/order/clear oracle'},
            {'name': 'xml_tree', 'path': 'harness/xml_tree.cpp', 'serves_properties': ['C32'], 'kind_free_text': 'tree generator/serialiser, structural comparison, byte mutation'},
        ],
        'checks': checks,
        'notes': 'All checks: python3 check.py <id> --tier quick|thorough; VERIF_SEED selects the PRNG seed. Exit 0 held, 1 VIOLATION, 2 inconclusive. '
                 'known_findings.json lists recorded and fixed defects.',
        'not_applicable': [{'property_id': p, 'reason': NOT_YET} for p in props if p not in CHECKS],
    }
    with open(os.path.join(VERIF, 'MANIFEST.json'), 'w') as f:
        json.dump(man, f, indent=1)
        f.write('\n')


if __name__ == '__main__':
    main()
