#!/usr/bin/env python3
"""Regenerates /verif/MANIFEST.json from the table below (keeps it valid and in one place)."""
import json
import os
import subprocess

VERIF = os.path.dirname(os.path.dirname(os.path.abspath(__file__)))

# id: (engine, category, technique, level text, level note, design ref)
CHECKS = {
    'C07': ('prim_exec', 'exploration', 'runtime oracle (naive byte sum) + ASan red zones/UBSan over enumerated and random (size, offset, length) geometries',
            'Every (sz,off,len) with sz<=40 is enumerated and ~300k larger geometries sampled per quick run on exact-size heap buffers; an out-of-range read '
            'adjacent to the buffer or a wrong sum is reported with the failing geometry. Exploration, not proof: sizes above 40 are sampled.',
            'gcc ASan/UBSan runtimes; red zones only catch accesses adjacent to the buffer.', '3 C07'),
    'C08': ('prim_exec', 'exploration', 'runtime oracle: snprintf for ints (thorough: all 2^32 values), exact 128-bit rational rounding oracle for modp_dtoa/fast_atof, under ASan+UBSan',
            'Ints: boundaries, |v|<2^17 and millions of random values per quick run, the whole int32 range in the thorough run. Floats: correct rounding decided exactly '
            '(no floating point in the oracle) over random bit patterns, decimals, constructed near-ties, rollover and near-2^31 values.',
            '"half a unit in the last place" for parsing is read as the last decimal place of the text or an adjacent double; two recorded findings (near-tie misrounding, >15 digits).', '3 C08'),
    'C09': ('prim_exec', 'exploration', 'runtime oracle: independent civil-calendar algorithm vs the real field codecs, factorised exhaustion of all days 1970..2099, under ASan+UBSan',
            'Every day of the range is rendered and parsed at 20 (second, millisecond) combinations for all five date/time field types, 24 special days get whole hours of seconds '
            'and all millisecond values, log timestamps are checked incl. fractions that round up.',
            'TZ=UTC; the calendar reference is the days-from-civil algorithm, not libc.', '3 C09'),
    'C10': ('prim_exec', 'exploration', 'runtime oracle: set membership from an independent parse of the schema XML vs get_rlm_idx / descriptions / is_valid / print_field on every enumerated field',
            'All 350 enumerated fields of FIX42UTEST and FIX44 are probed with every byte value (chars), [min-50,max+50] (ints) and all short strings over the members\' alphabet (strings).',
            'Independent schema model (pylib/fixschema.py); only set domains exist in the stock schemas.', '3 C10'),
    'C12': ('prim_exec', 'exploration', 'runtime oracle: independent schema model vs generated tables for all 65536 keys per section; std::set model vs presorted_set under ASan',
            'All 16-bit keys are tried on the field table and on the trait set of a live instance of every message, header, trailer and nested group of both schemas; names and near misses '
            'on the message/reverse tables; thousands of random op histories on both presorted_set templates.',
            'Independent schema model; ASan for the memmove/memcpy paths.', '3 C12'),
}

NOT_YET = 'check not built yet in this round (planned, see DESIGN.md section 3)'


def main():
    props = [json.loads(l)['id'] for l in open(os.path.join(VERIF, 'properties.jsonl'))]
    checks = []
    for pid in props:
        if pid not in CHECKS:
            continue
        eng, cat, tech, text, note, ref = CHECKS[pid]
        checks.append({
            'property_id': pid,
            'quick_cmd': 'python3 check.py %s --tier quick' % pid,
            'thorough_cmd': 'python3 check.py %s --tier thorough' % pid,
            'evidence_file': '/verif/evidence/%s.json' % pid,
            'replay_cmd_template': 'python3 check.py %s --replay {path}' % pid,
            'engine': eng,
            'level_claimed': {'category': cat, 'text': text, 'design_ref': 'DESIGN.md ' + ref},
            'level_note': note,
            'technique': tech,
        })
    hooks = subprocess.run(['git', '-C', '/repo', 'log', '--format=%h %s'], stdout=subprocess.PIPE, text=True).stdout
    hook_commits = [l.split()[0] for l in hooks.splitlines() if l.split(' ', 1)[1].startswith('verif hook')]
    man = {
        'version': 1,
        'setup_cmd': 'python3 tools/build.py all',
        'hooks': {
            'guard': 'FIX8_VERIF',
            'enable': 'tools/build.py compiles /repo sources and the harnesses with -DFIX8_VERIF=1 (own build, not the autotools products)',
            'baseline_off_cmd': 'make -C /repo -j16 && make -C /repo -k check',
            'source_commits': hook_commits,
            'add_only': True,
        },
        'engines': [
            {'name': 'prim_exec', 'path': 'harness/prim_exec.cpp', 'serves_properties': ['C07', 'C08', 'C09', 'C10', 'C12', 'C24'],
             'kind_free_text': 'micro-monitors: real primitive + oracle from the property text, ASan/UBSan build'},
        ],
        'checks': checks,
        'notes': 'All checks: python3 check.py <id> --tier quick|thorough; VERIF_SEED selects the PRNG seed. Exit 0 held, 1 VIOLATION, 2 inconclusive. '
                 'known_findings.json lists recorded and fixed defects.',
        'not_applicable': [{'property_id': p, 'reason': NOT_YET} for p in props if p not in CHECKS],
    }
    with open(os.path.join(VERIF, 'MANIFEST.json'), 'w') as f:
        json.dump(man, f, indent=1)
        f.write('\n')


if __name__ == '__main__':
    main()
