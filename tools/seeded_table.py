#!/usr/bin/env python3
"""Prints the markdown table of DESIGN.md section 9 from seeded/*/meta.json."""
import glob
import json
import os
import re

VERIF = os.path.dirname(os.path.dirname(os.path.abspath(__file__)))
rows = []
for p in sorted(glob.glob(os.path.join(VERIF, 'seeded', '*', 'meta.json'))):
    m = json.load(open(p))
    name = os.path.basename(os.path.dirname(p))
    notes = m.get('needs_to_manifest', '')
    first = re.sub(r'\s+', ' ', notes.split('\n')[0])[:150]
    det = []
    for cid, r in sorted(m.get('checks_run_against_it', {}).items()):
        det.append('%s %s' % (cid, 'caught (%s)' % (r['keys'][0][:60] if r['keys'] else '') if r['rc'] == 1 else 'MISSED' if r['rc'] == 0 else 'inconclusive'))
    rows.append('| %s | %s | %s |%s' % (name, first.replace('|', '/'), '; '.join(det).replace('|', '/'), (' ' + m['history'][:160].replace('|', '/')) if m.get('history') else ''))
print('| change | what it is (first line of the author\'s notes) | checks run against it |')
print('|---|---|---|')
print('\n'.join(rows))
