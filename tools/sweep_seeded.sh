#!/bin/bash
# usage: sweep_seeded.sh <log> [jobs]   -- runs every kept seeded change in seeded/*/ against the checks named in its meta.json
# (quick tier, scratch worktrees of /repo HEAD) and appends "### <name>" / "== <check> rc=..." lines to <log>.
LOG=$1; J=${2:-2}
cd /verif
python3 - <<'P' > /tmp/sweep_list.txt
import json,glob,os
for f in sorted(glob.glob('/verif/seeded/*/meta.json')):
    d=json.load(open(f)); n=os.path.basename(os.path.dirname(f))
    ids=sorted(d.get('checks_run_against_it',{}) or [d['property']])
    print(n, ' '.join(ids))
P
run_one() { n=$1; shift; out=$(tools/try_seeded.sh seeded/$n/patch.diff "$@" 2>&1 | grep -E "^== |PATCH DOES NOT APPLY"); printf '### %s\n%s\n' "$n" "$out" >> "$LOG"; }
export -f run_one; export LOG
: > "$LOG"
xargs -P $J -L 1 bash -c 'run_one $0 "$@"' < /tmp/sweep_list.txt
echo SWEEP-DONE >> "$LOG"
