#!/bin/bash
# usage: sweep_seeded.sh <log> <jobs> [name-prefix...]  -- runs every kept seeded change in seeded/*/ against the checks named in its
# meta.json (quick tier) and appends "### <name>" / "== <check> rc=..." lines to <log>.  Each job owns one scratch worktree of /repo
# HEAD under /tmp which it re-uses for all its changes (git checkout + git apply), so that the compiler cache hits; removed at the end.
LOG=$1; J=${2:-2}; shift 2
cd /verif
python3 - "$@" <<'P' > /tmp/sweep_list.txt
import json,glob,os,sys
pre=sys.argv[1:]
for f in sorted(glob.glob('/verif/seeded/*/meta.json')):
    d=json.load(open(f)); n=os.path.basename(os.path.dirname(f))
    if pre and not any(n.startswith(p) for p in pre): continue
    ids=sorted(d.get('checks_run_against_it',{}) or [d['property']])
    print(n, ' '.join(ids))
P
: > "$LOG"
slot() {
  k=$1; D=/tmp/seedsweep.slot$k
  git -C /repo worktree remove --force $D >/dev/null 2>&1
  git -C /repo worktree add --detach $D HEAD >/dev/null 2>&1 || exit 2
  cp /repo/include/fix8/f8config.h $D/include/fix8/
  i=0
  while read n ids; do
    i=$((i+1)); [ $(( (i-1) % J )) -eq $((k-1)) ] || continue
    git -C $D checkout -q -- . ; git -C $D clean -fdq -e include/fix8/f8config.h
    if ! git -C $D apply /verif/seeded/$n/patch.diff 2>/dev/null; then printf '### %s\nPATCH DOES NOT APPLY\n' "$n" >> "$LOG"; continue; fi
    res=""
    for id in $ids; do
      out=$(VERIF_REPO=$D python3 check.py $id --tier quick 2>&1); rc=$?
      res="$res== $id rc=$rc $(echo "$out" | grep -c '^VIOLATION') violation line(s): $(echo "$out" | grep -m3 '  key:' | tr '\n' ';' | cut -c1-300)"$'\n'
    done
    printf '### %s\n%s' "$n" "$res" >> "$LOG"
  done < /tmp/sweep_list.txt
  W=$(VERIF_REPO=$D python3 -c "import sys; sys.path.insert(0,'tools'); import build; print(build.WORK)")
  rm -rf "$W"
  git -C /repo worktree remove --force $D
}
for k in $(seq 1 $J); do slot $k & done
wait
echo SWEEP-DONE >> "$LOG"
