#!/bin/bash
# usage: try_rev.sh <git rev of /repo> <check id>...  -- runs quick checks against a scratch worktree of /repo at that revision
R=$1; shift
D=/tmp/revtry.$$
git -C /repo worktree add --detach $D $R >/dev/null 2>&1 || exit 2
cp /repo/include/fix8/f8config.h $D/include/fix8/
for id in "$@"; do
  out=$(cd /verif && VERIF_REPO=$D python3 check.py $id --tier ${TIER:-quick} 2>&1)
  echo "== $id @$R rc=$? $(echo "$out" | grep -c '^VIOLATION') violation line(s): $(echo "$out" | grep '  key:' | head -${KEYS:-4} | tr '\n' ';' | cut -c1-500)"
done
W=$(cd /verif && VERIF_REPO=$D python3 -c "import sys; sys.path.insert(0,'tools'); import build; print(build.WORK)")
rm -rf "$W"
git -C /repo worktree remove --force $D
