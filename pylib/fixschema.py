"""Independent model of a fix8 XML schema (QuickFIX style).  Shares no code with f8c.

Positions: members of a section (header, trailer, message body, group element) are numbered 1.. in
document order after components are expanded in place.  This is what "schema position order" means.
"""
import xml.etree.ElementTree as ET

INT_TYPES = {'INT', 'LENGTH', 'TAGNUM', 'SEQNUM', 'NUMINGROUP', 'DAYOFMONTH'}
FLOAT_TYPES = {'FLOAT', 'QTY', 'QUANTITY', 'PRICE', 'PRICEOFFSET', 'AMT', 'PERCENTAGE'}
CHAR_TYPES = {'CHAR', 'BOOLEAN'}
TIME_TYPES = {'MONTHYEAR', 'UTCTIMESTAMP', 'UTCTIME', 'UTCTIMEONLY', 'UTCDATE', 'UTCDATEONLY', 'LOCALMKTDATE',
              'TZTIMEONLY', 'TZTIMESTAMP'}
DATA_TYPES = {'DATA', 'XMLDATA'}


def base_type(t):
    t = t.upper()
    if t in INT_TYPES:
        return 'int'
    if t in FLOAT_TYPES:
        return 'float'
    if t in CHAR_TYPES:
        return 'char'
    return 'string'


class Field:
    __slots__ = ('num', 'name', 'type', 'values')

    def __init__(self, num, name, typ, values):
        self.num, self.name, self.type, self.values = num, name, typ.upper(), values

    @property
    def base(self):
        return base_type(self.type)


class Member:
    """one entry of a section: a plain field or a group (count field + element definition)"""
    __slots__ = ('field', 'required', 'group', 'pos', 'comp')

    def __init__(self, field, required, group, comp):
        self.field, self.required, self.group, self.comp = field, required, group, comp
        self.pos = 0

    @property
    def num(self):
        return self.field.num


class Section:
    """header / trailer / message body / group element definition"""

    def __init__(self, name, msgtype=None, cat=None):
        self.name, self.msgtype, self.cat = name, msgtype, cat
        self.members = []

    def by_num(self):
        return {m.num: m for m in self.members}

    def nums(self):
        return [m.num for m in self.members]


class Schema:
    def __init__(self, path):
        self.path = path
        root = ET.parse(path).getroot()
        self.major = int(root.get('major'))
        self.minor = int(root.get('minor'))
        self.type = root.get('type', 'FIX')
        self.begin_string = '%s.%d.%d' % (self.type, self.major, self.minor)
        self.fields = {}
        self.by_num = {}
        for f in root.find('fields'):
            if f.tag != 'field':
                continue
            vals = [(v.get('enum'), v.get('description')) for v in f if v.tag == 'value']
            fld = Field(int(f.get('number')), f.get('name'), f.get('type'), vals)
            self.fields[fld.name] = fld
            self.by_num[fld.num] = fld
        self.components = {}
        comps = root.find('components')
        if comps is not None:
            for c in comps:
                if c.tag == 'component':
                    self.components[c.get('name')] = c
        self.header = self._section(root.find('header'), 'header')
        self.trailer = self._section(root.find('trailer'), 'trailer')
        self.messages = {}
        self.msg_order = []
        for m in root.find('messages'):
            if m.tag != 'message':
                continue
            s = self._section(m, m.get('name'), m.get('msgtype'), m.get('msgcat'))
            self.messages[s.msgtype] = s
            self.msg_order.append(s.msgtype)

    def _section(self, elem, name, msgtype=None, cat=None):
        s = Section(name, msgtype, cat)
        self._expand(elem, s, True, None)
        for i, m in enumerate(s.members):
            m.pos = i + 1
        return s

    def _expand(self, elem, sect, required, comp):
        for e in elem:
            if e.tag == 'field':
                sect.members.append(Member(self.fields[e.get('name')], required and e.get('required') == 'Y',
                                           None, comp))
            elif e.tag == 'group':
                g = Section(e.get('name'))
                self._expand(e, g, required, None)
                for i, m in enumerate(g.members):
                    m.pos = i + 1
                sect.members.append(Member(self.fields[e.get('name')], required and e.get('required') == 'Y',
                                           g, comp))
            elif e.tag == 'component':
                c = self.components[e.get('name')]
                self._expand(c, sect, required and e.get('required') == 'Y', e.get('name'))

    # ---- helpers
    def data_pairs(self, sect):
        """(length member, data member) pairs: a LENGTH field immediately followed by a DATA/XMLDATA field"""
        out = []
        ms = sect.members
        for i in range(len(ms) - 1):
            if ms[i].field.type == 'LENGTH' and ms[i + 1].field.type in DATA_TYPES and not ms[i].group:
                out.append((ms[i], ms[i + 1]))
        return out

    def all_sections(self):
        """yield (path, section) for header, trailer, every message and every nested group definition"""
        def rec(path, s):
            yield path, s
            for m in s.members:
                if m.group:
                    yield from rec(path + '/' + m.field.name, m.group)
        yield from rec('header', self.header)
        yield from rec('trailer', self.trailer)
        for mt in self.msg_order:
            yield from rec(mt, self.messages[mt])
