"""Tiny independent FIX tag=value builder/parser for session-level traffic (no fix8 code involved)."""
SOH = b'\x01'


def ts(ms):
    """UTCTimestamp text of a virtual-clock value in milliseconds since the epoch"""
    s, m = divmod(ms, 1000)
    d, r = divmod(s, 86400)
    z = d + 719468
    era = z // 146097
    doe = z - era * 146097
    yoe = (doe - doe // 1460 + doe // 36524 - doe // 146096) // 365
    y = yoe + era * 400
    doy = doe - (365 * yoe + yoe // 4 - yoe // 100)
    mp = (5 * doy + 2) // 153
    dd = doy - (153 * mp + 2) // 5 + 1
    mm = mp + 3 if mp < 10 else mp - 9
    if mm <= 2:
        y += 1
    return '%04d%02d%02d-%02d:%02d:%02d.%03d' % (y, mm, dd, r // 3600, r % 3600 // 60, r % 60, m)


def frame(begin, fields):
    """fields: list of (tag, value str/bytes) starting with 35 -> complete message bytes"""
    body = b''
    for t, v in fields:
        if not isinstance(v, bytes):
            v = str(v).encode('latin-1')
        body += str(t).encode() + b'=' + v + SOH
    head = b'8=' + begin.encode() + SOH + b'9=' + str(len(body)).encode() + SOH
    whole = head + body
    return whole + b'10=' + ('%03d' % (sum(whole) % 256)).encode() + SOH


def msg(begin, mtype, seq, sender, target, now_ms, body=(), possdup=False, orig_ms=None, extra_header=(), drop=(), pre=()):
    """standard header order: 35 49 56 [pre] 34 [43 97 122] 52 + extra header fields, then body"""
    f = [(35, mtype), (49, sender), (56, target)] + list(pre) + [(34, seq)]
    if possdup:
        f.append((43, 'Y'))
    f.append((52, ts(now_ms)))
    if orig_ms is not None:
        f.append((122, ts(orig_ms)))
    f += list(extra_header)
    f += list(body)
    f = [x for x in f if x[0] not in drop]
    return frame(begin, f)


def split_stream(b):
    """split a byte stream into complete FIX messages using BodyLength; returns (messages, rest)"""
    out = []
    i = 0
    while True:
        if not b.startswith(b'8=', i):
            break
        j = b.find(b'\x019=', i)
        if j < 0:
            break
        k = b.find(SOH, j + 3)
        if k < 0:
            break
        try:
            n = int(b[j + 3:k])
        except ValueError:
            break
        end = k + 1 + n + 7
        if end > len(b):
            break
        out.append(b[i:end])
        i = end
    return out, b[i:]


class M:
    """parsed message: ordered (tag, value) list + first-value dict"""

    def __init__(self, raw):
        self.raw = raw
        self.fields = []
        for tok in raw.split(SOH):
            if not tok:
                continue
            t, _, v = tok.partition(b'=')
            try:
                self.fields.append((int(t), v.decode('latin-1')))
            except ValueError:
                self.fields.append((-1, tok.decode('latin-1')))
        self.d = {}
        for t, v in self.fields:
            self.d.setdefault(t, v)

    def get(self, t, default=None):
        return self.d.get(t, default)

    @property
    def type(self):
        return self.d.get(35)

    @property
    def seq(self):
        try:
            return int(self.d.get(34))
        except (TypeError, ValueError):
            return None

    @property
    def possdup(self):
        return self.d.get(43) == 'Y'

    def frame_ok(self):
        """BodyLength and CheckSum of the raw bytes"""
        r = self.raw
        try:
            j = r.index(b'\x019=')
            k = r.index(SOH, j + 3)
            n = int(r[j + 3:k])
            t = r.rindex(b'\x0110=') + 1
            return n == t - (k + 1) and int(r[t + 3:t + 6]) == sum(r[:t]) % 256 and len(r) == t + 7
        except ValueError:
            return False

    def body_fields(self, header_tags=(8, 9, 35, 49, 56, 34, 43, 97, 52, 122, 10, 50, 57, 115, 116, 128, 129, 142, 143, 144, 145)):
        return [(t, v) for t, v in self.fields if t not in header_tags]

    def __repr__(self):
        return '|'.join('%d=%s' % f for f in self.fields)
