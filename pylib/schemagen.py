"""Random / structured FIX schema generator for the f8c pipeline checks (C13 C14).  Produces the schema XML text; the reference model is
obtained by parsing that text with pylib/fixschema.py (independent of f8c)."""

BASE_FIELDS = [
    (8, 'BeginString', 'STRING'), (9, 'BodyLength', 'LENGTH'), (35, 'MsgType', 'STRING'), (49, 'SenderCompID', 'STRING'),
    (56, 'TargetCompID', 'STRING'), (34, 'MsgSeqNum', 'SEQNUM'), (43, 'PossDupFlag', 'BOOLEAN'), (97, 'PossResend', 'BOOLEAN'),
    (52, 'SendingTime', 'UTCTIMESTAMP'), (122, 'OrigSendingTime', 'UTCTIMESTAMP'), (10, 'CheckSum', 'STRING'),
    (98, 'EncryptMethod', 'INT'), (108, 'HeartBtInt', 'INT'), (112, 'TestReqID', 'STRING'), (7, 'BeginSeqNo', 'SEQNUM'),
    (16, 'EndSeqNo', 'SEQNUM'), (36, 'NewSeqNo', 'SEQNUM'), (123, 'GapFillFlag', 'BOOLEAN'), (45, 'RefSeqNum', 'SEQNUM'),
    (58, 'Text', 'STRING'), (372, 'RefMsgType', 'STRING'), (373, 'SessionRejectReason', 'INT'), (141, 'ResetSeqNumFlag', 'BOOLEAN'),
]
HEADER = [('BeginString', 'Y'), ('BodyLength', 'Y'), ('MsgType', 'Y'), ('SenderCompID', 'Y'), ('TargetCompID', 'Y'), ('MsgSeqNum', 'Y'),
          ('PossDupFlag', 'N'), ('PossResend', 'N'), ('SendingTime', 'Y'), ('OrigSendingTime', 'N')]
ADMIN = [('Heartbeat', '0', [('TestReqID', 'N')]), ('TestRequest', '1', [('TestReqID', 'Y')]),
         ('ResendRequest', '2', [('BeginSeqNo', 'Y'), ('EndSeqNo', 'Y')]),
         ('Reject', '3', [('RefSeqNum', 'Y'), ('Text', 'N'), ('RefMsgType', 'N'), ('SessionRejectReason', 'N')]),
         ('SequenceReset', '4', [('GapFillFlag', 'N'), ('NewSeqNo', 'Y')]), ('Logout', '5', [('Text', 'N')]),
         ('Logon', 'A', [('EncryptMethod', 'Y'), ('HeartBtInt', 'Y'), ('ResetSeqNumFlag', 'N')])]

PLAIN_TYPES = ['INT', 'SEQNUM', 'TAGNUM', 'DAYOFMONTH', 'CHAR', 'BOOLEAN', 'FLOAT', 'QTY', 'PRICE', 'PRICEOFFSET', 'AMT', 'PERCENTAGE', 'STRING',
               'MULTIPLEVALUESTRING', 'COUNTRY', 'CURRENCY', 'EXCHANGE', 'MONTHYEAR', 'UTCTIMESTAMP', 'UTCTIMEONLY', 'UTCDATEONLY', 'LOCALMKTDATE']


class Node:
    """field / group / component reference inside a section"""

    def __init__(self, kind, name, required, children=None):
        self.kind, self.name, self.required, self.children = kind, name, required, children or []


class SchemaGen:
    def __init__(self, rng, nfields=None, nmsgs=None):
        self.r = rng
        self.fields = []            # (num, name, type, [(enum, desc)])
        self.names = {}
        self.components = {}        # name -> [Node]
        self.messages = []          # (name, msgtype, [Node])
        self.group_defs = {}        # count field name -> list of definitions used (each a list of Nodes)
        for num, name, typ in BASE_FIELDS:
            self.fields.append((num, name, typ, []))
        self.used_nums = {f[0] for f in self.fields}
        self.plain = []             # names of random plain fields
        self.counts = []            # names of NUMINGROUP fields
        self.pairs = []             # (length name, data name)
        n = nfields or rng.randint(8, 40)
        for i in range(n):
            typ = rng.choice(PLAIN_TYPES)
            name = 'F%s%d' % (typ.title().replace('_', '')[:6], i)
            vals = []
            if typ in ('CHAR', 'INT', 'STRING') and rng.random() < 0.5:
                k = rng.randint(2, 6)
                if typ == 'CHAR':
                    vals = [(c, 'DESC_%s_%d' % (name.upper(), j)) for j, c in enumerate(rng.sample('ABCDEFGHJKMNPQRSTUVWXYZ0123456789', k))]
                elif typ == 'INT':
                    vals = [(str(v), 'VAL_%d' % j) for j, v in enumerate(sorted(rng.sample(range(0, 120), k)))]
                else:
                    vals = [(v, 'S_%d' % j) for j, v in enumerate(sorted(rng.sample(['AA', 'AB', 'B', 'CXX', 'D1', 'ZED', 'M', 'QQQQ', 'X9'], k)))]
            if vals and rng.random() < 0.3:
                # the description attribute is optional: f8c then uses the enum value itself as the description
                j = rng.randrange(len(vals))
                vals[j] = (vals[j][0], None)
            self.fields.append((self.num(), name, typ, vals))
            self.plain.append(name)
        for i in range(rng.randint(2, 6)):
            name = 'NoGrp%d' % i
            self.fields.append((self.num(), name, 'NUMINGROUP', []))
            self.counts.append(name)
        for i in range(rng.randint(0, 2)):
            a = self.num_pair()
            self.fields.append((a, 'DataLen%d' % i, 'LENGTH', []))
            self.fields.append((a + 1, 'DataVal%d' % i, 'DATA', []))
            self.pairs.append(('DataLen%d' % i, 'DataVal%d' % i))

    def num(self):
        r = self.r
        while True:
            n = r.randint(200, 999) if r.random() < 0.7 else r.randint(5000, 5400)
            if n not in self.used_nums and n + 1 not in self.used_nums and n - 1 not in self.used_nums:
                self.used_nums.add(n)
                return n

    def num_pair(self):
        n = self.num()
        self.used_nums.add(n + 1)
        return n

    # ---- structure
    def field_nodes(self, k, exclude=()):
        names = [x for x in self.plain if x not in exclude]
        self.r.shuffle(names)
        return [Node('field', x, 'Y' if self.r.random() < 0.3 else 'N') for x in names[:k]]

    def group(self, depth, used):
        """a fresh group definition: count field + element fields (first one required) + optional nested group"""
        r = self.r
        avail = [c for c in self.counts if c not in used]
        if not avail:
            return None
        cname = r.choice(avail)
        members = self.field_nodes(r.randint(1, 4), used)
        if not members:
            return None
        members[0].required = 'Y'
        u2 = set(used) | {cname} | {m.name for m in members}
        if depth < 3 and r.random() < 0.35:
            g = self.group(depth + 1, u2)
            if g:
                members.append(g)
        return Node('group', cname, 'Y' if r.random() < 0.2 else 'N', members)

    def body(self, ncomp_ok=True, depth=0):
        r = self.r
        nodes = self.field_nodes(r.randint(1, 7))
        used = {n.name for n in nodes}
        for _ in range(r.choice([0, 1, 1, 2])):
            g = self.group(1, used)
            if g:
                nodes.insert(r.randint(0, len(nodes)), g)
                used |= names_of([g])
        if self.pairs and r.random() < 0.3:     # a Length field and its data field stay adjacent
            ln, dn = r.choice(self.pairs)
            p = r.randint(0, len(nodes))
            nodes[p:p] = [Node('field', ln, 'N'), Node('field', dn, 'N')]
        return nodes

    def build(self, ncomponents=None, nmsgs=None):
        r = self.r
        for i in range(ncomponents if ncomponents is not None else r.randint(0, 4)):
            name = 'Comp%d' % i
            nodes = self.field_nodes(r.randint(1, 4))
            used = {n.name for n in nodes}
            if r.random() < 0.4:
                g = self.group(1, used)
                if g:
                    nodes.append(g)
                    used |= names_of([g])
            # nested component
            prev = [c for c in self.components if not (names_of(self.components[c], self) & used)]
            if prev and r.random() < 0.4:
                nodes.append(Node('component', r.choice(prev), r.choice('YN')))
            self.components[name] = nodes
        types = [a + b for a in 'BCDEFGHJKLMNPQRSTUVWXYZ' for b in ('', 'A', 'Z', '1')]
        r.shuffle(types)
        for i in range(nmsgs or r.randint(3, 15)):
            nodes = self.body()
            used = names_of(nodes, self)
            for cname in r.sample(sorted(self.components), min(len(self.components), r.choice([0, 1, 1, 2]))):
                cn = names_of(self.components[cname], self)
                if not (cn & used):
                    lens = {a for a, _ in self.pairs}
                    ok = [p for p in range(len(nodes) + 1) if p == 0 or nodes[p - 1].name not in lens]      # never between a Length and its data
                    nodes.insert(r.choice(ok), Node('component', cname, r.choice('YN')))
                    used |= cn
            if not any(n.kind == 'field' and n.required == 'Y' for n in nodes) and nodes and nodes[0].kind == 'field':
                nodes[0].required = 'Y'
            self.messages.append(('Msg%d' % i, types[i], nodes))
        return self

    def finish(self):
        """f8c requires the MsgType domain to list the message types"""
        vals = sorted([(mt, nm.upper()) for nm, mt, _ in ADMIN] + [(mt, nm.upper()) for nm, mt, _ in self.messages])
        self.fields = [(n, nm, t, vals if nm == 'MsgType' else v) for n, nm, t, v in self.fields]
        return self

    # ---- output
    def xml(self, major=4, minor=4):
        self.finish()
        out = ["<?xml version='1.0' encoding='ISO-8859-1'?>", "<fix major='%d' type='FIX' servicepack='0' minor='%d'>" % (major, minor), ' <header>']
        out += ["  <field name='%s' required='%s' />" % x for x in HEADER]
        out += [' </header>', ' <trailer>', "  <field name='CheckSum' required='Y' />", ' </trailer>', ' <messages>']

        def emit(nodes, ind):
            for n in nodes:
                if n.kind == 'field':
                    out.append("%s<field name='%s' required='%s' />" % (ind, n.name, n.required))
                elif n.kind == 'component':
                    out.append("%s<component name='%s' required='%s' />" % (ind, n.name, n.required))
                else:
                    out.append("%s<group name='%s' required='%s'>" % (ind, n.name, n.required))
                    emit(n.children, ind + ' ')
                    out.append('%s</group>' % ind)
        for name, mt, flds in ADMIN:
            out.append("  <message name='%s' msgtype='%s' msgcat='admin'>" % (name, mt))
            out += ["   <field name='%s' required='%s' />" % f for f in flds]
            out.append('  </message>')
        for name, mt, nodes in self.messages:
            out.append("  <message name='%s' msgtype='%s' msgcat='app'>" % (name, mt))
            emit(nodes, '   ')
            out.append('  </message>')
        out.append(' </messages>')
        out.append(' <components>')
        for name, nodes in self.components.items():
            out.append("  <component name='%s'>" % name)
            emit(nodes, '   ')
            out.append('  </component>')
        out.append(' </components>')
        out.append(' <fields>')
        for num, name, typ, vals in sorted(self.fields):
            if vals:
                out.append("  <field number='%d' name='%s' type='%s'>" % (num, name, typ))
                out += [("   <value enum='%s' description='%s' />" % v) if v[1] is not None else ("   <value enum='%s' />" % v[0]) for v in vals]
                out.append('  </field>')
            else:
                out.append("  <field number='%d' name='%s' type='%s' />" % (num, name, typ))
        out += [' </fields>', '</fix>', '']
        return '\n'.join(out)


def names_of(nodes, gen=None):
    """all field names reachable from the nodes (components expanded when gen is given)"""
    s = set()
    for n in nodes:
        if n.kind == 'component':
            if gen:
                s |= names_of(gen.components[n.name], gen)
        else:
            s.add(n.name)
            if n.kind == 'group':
                s |= names_of(n.children, gen)
    return s


def rothash(result, value):
    """the compiler's structural hash step (include/fix8/f8utils.hpp), 32 bit"""
    return (result ^ (result >> 2) ^ ((result << 5) & 0xffffffff) ^ ((result << 13) & 0xffffffff) ^ value ^ 0x80001801) & 0xffffffff


def group_hash(nums, nested=()):
    h = 0
    for n in sorted(nums):
        h = rothash(h, n)
    for g in nested:
        h = rothash(h, g)
    return h
