"""Shared runner: build, fan out harness workers, parse their protocol and sanitizer reports, match
violations against known_findings.json, write evidence, decide the exit code."""
import json
import os
import re
import shutil
import subprocess
import sys
import time
import hashlib
from concurrent.futures import ThreadPoolExecutor

VERIF = os.path.dirname(os.path.dirname(os.path.abspath(__file__)))
sys.path.insert(0, os.path.join(VERIF, 'tools'))
import build as buildmod  # noqa: E402

REPO = buildmod.REPO
# checks pointed at a scratch copy of the repository (VERIF_REPO, e.g. one carrying a seeded break) must not overwrite the evidence
# and replays of /repo itself
OUT = VERIF if os.path.abspath(REPO) == '/repo' else buildmod.WORK
NCPU = int(os.environ.get('VERIF_JOBS', '16'))
# this VM gains little beyond ~8 sanitizer processes (page-fault bound); 8 is the default fan-out
NWORK = int(os.environ.get('VERIF_WORKERS', '8'))

SAN_ENV = {
    'ASAN_OPTIONS': 'abort_on_error=0:exitcode=77:detect_leaks=0:allocator_may_return_null=1:'
                    'detect_stack_use_after_return=0:handle_abort=1:quarantine_size_mb=8:malloc_context_size=8:hard_rss_limit_mb=6000',
    'UBSAN_OPTIONS': 'halt_on_error=0:print_stacktrace=1',
    'TSAN_OPTIONS': 'halt_on_error=0:exitcode=0:second_deadlock_stack=1:history_size=4:suppressions='
                    + os.path.join(VERIF, 'tools', 'tsan.supp'),
    'TZ': 'UTC',
}


class Violation:
    def __init__(self, key, detail, replay=None):
        self.key, self.detail, self.replay = key, detail, replay or {}


class WorkerOut:
    def __init__(self):
        self.viol = []        # (key, detail)
        self.stats = {}
        self.hashes = {}      # name -> set
        self.samples = []
        self.done = False
        self.lines = []       # other protocol lines ("OBS ..." etc.), for oracles in python


def parse_stdout(text, out):
    for line in text.splitlines():
        if line.startswith('VIOL '):
            k, _, d = line[5:].partition('\t')
            out.viol.append((k, d))
        elif line.startswith('VIOLMORE '):
            k, _, d = line[9:].partition('\t')
            out.stats['suppressed_repeats:' + k] = out.stats.get('suppressed_repeats:' + k, 0) + int(d)
        elif line.startswith('STAT '):
            _, n, v = line.split(' ', 2)
            out.stats[n] = out.stats.get(n, 0) + int(v)
        elif line.startswith('HASH '):
            parts = line.split(' ')
            out.hashes.setdefault(parts[1], set()).update(int(x, 16) for x in parts[2:] if x)
        elif line.startswith('SAMPLE '):
            try:
                out.samples.append(json.loads(line[7:]))
            except ValueError:
                out.samples.append(line[7:])
        elif line == 'DONE':
            out.done = True
        elif line:
            out.lines.append(line)


FRAME_RE = re.compile(r'^\s*#(\d+) 0x[0-9a-f]+ in (.+?) (\S+?):(\d+)(?::\d+)?$')
TSAN_FRAME_RE = re.compile(r'^\s*#(\d+) (.+?) (\S+?):(\d+)(?::\d+)? \(\S+\+0x[0-9a-f]+\)')
FRAME2_RE = re.compile(r'^\s*#(\d+) 0x[0-9a-f]+ in (.+?) \((\S+)\+0x[0-9a-f]+\)')


def _short_func(f):
    f = re.sub(r'\(.*$', '', f)            # drop argument list
    f = re.sub(r'<[^<>]*>', '<>', f)
    f = re.sub(r'<[^<>]*>', '<>', f)
    return f.strip()


def repo_frames(block_lines, limit=3):
    out = []
    for l in block_lines:
        m = FRAME_RE.match(l) or TSAN_FRAME_RE.match(l)
        if m and ('repo/' in m.group(3) or '/include/fix8/' in m.group(3) or '/runtime/' in m.group(3)) and 'harness/' not in m.group(3):
            out.append(_short_func(m.group(2)))
            if len(out) >= limit:
                break
    return out


def parse_sanitizer(stderr):
    """returns list of (case, cls, key, detail) from the stderr of one worker process"""
    res = []
    case, cls = None, None
    lines = stderr.splitlines()
    i = 0
    while i < len(lines):
        l = lines[i]
        if l.startswith('@CASE '):
            try:
                case = int(l[6:])
            except ValueError:
                pass
            cls = None
        elif l.startswith('@CLASS '):
            cls = l[7:].strip()
        elif 'ERROR: AddressSanitizer:' in l or 'ERROR: LeakSanitizer' in l:
            m = re.search(r'AddressSanitizer: (\S+)', l)
            kind = m.group(1) if m else 'error'
            blk = lines[i:i + 60]
            acc = ''
            for b in blk[:4]:
                mm = re.match(r'^(READ|WRITE) of size', b)
                if mm:
                    acc = ':' + mm.group(1)
            fr = repo_frames(blk)
            obj = ''
            for b in blk:
                mo = re.search(r"overflows this variable|'(\w+)' \(line \d+\) <== Memory access", b)
                if mo and mo.group(1):
                    obj = ':' + mo.group(1)
            where = fr[0] if fr else 'unknown'
            key = 'asan:%s%s|%s' % (kind, acc, cls if cls else where + obj)
            res.append((case, cls, key, ' <- '.join(fr) + obj + ' | ' + l.strip()[:200]))
            i += 8
        elif 'runtime error:' in l:
            m = re.match(r'^(\S+?):(\d+):(\d+): runtime error: (.*)$', l.strip())
            if m:
                f = os.path.basename(m.group(1))
                msg = re.sub(r'0x[0-9a-f]+', 'ADDR', m.group(4))
                msg = re.sub(r'-?\d+(\.\d+)?(e[+-]?\d+)?', 'N', msg)
                blk = lines[i + 1:i + 12]
                fr = repo_frames(blk, 1)
                src = m.group(1)
                if 'repo/' in src or fr:
                    key = 'ubsan:%s:%s|%s' % (f, msg[:80], cls if cls else (fr[0] if fr else f))
                    res.append((case, cls, key, l.strip()[:300]))
        elif 'WARNING: ThreadSanitizer:' in l:
            m = re.search(r'ThreadSanitizer: ([^(]+)', l)
            kind = m.group(1).strip() if m else 'report'
            blk = []
            j = i + 1
            while j < len(lines) and not lines[j].startswith('SUMMARY: ThreadSanitizer') and j < i + 120:
                blk.append(lines[j])
                j += 1
            # the two access stacks: innermost repo function of each
            stacks, cur = [], None
            for b in blk:
                if re.match(r'^\s+(Write|Read|Previous|Atomic|Mutex|Thread T\d+ \(|Location)', b) or b.strip().endswith(':'):
                    if cur is not None:
                        stacks.append(cur)
                    cur = []
                elif cur is not None and b.strip().startswith('#'):
                    cur.append(b)
            if cur:
                stacks.append(cur)
            fns = []
            for st in stacks[:2]:
                fr = repo_frames(st, 1)
                fns.append(fr[0] if fr else 'unknown')
            fns.sort()
            key = 'tsan:%s|%s' % (kind.replace(' ', '-'), ' / '.join(fns))
            summ = lines[j].strip()[:200] if j < len(lines) else ''
            res.append((case, cls, key, summ))
            i = j
        i += 1
    return res


class Check:
    """state of one check run"""

    def __init__(self, pid, tier, seed, level='exploration'):
        self.pid, self.tier, self.seed, self.level = pid, tier, seed, level
        self.t0 = time.time()
        self.violations = []       # Violation
        self.stats = {}
        self.hashes = {}
        self.samples = []
        self.inconclusive = []
        self.evaluations = 0
        self.rule = ''
        self.distinct_names = None  # which hash sets count as distinct_nontrivial (default all)
        self.exhaustive = False
        self.assumptions = []
        self.extra = {}
        self.scratch = '/dev/shm/fix8verif.%d' % os.getpid()
        os.makedirs(self.scratch, exist_ok=True)
        self.quick = tier == 'quick'

    # ---- building
    def build(self, flavour, names):
        try:
            return buildmod.build(flavour, names)
        except Exception as e:  # noqa: BLE001
            self.inconclusive.append('build failed: %s' % e)
            self.finish()

    # ---- running
    def run_proc(self, cmd, timeout, env=None, cwd=None, stdin=None):
        e = dict(os.environ)
        e.update(SAN_ENV)
        if env:
            e.update(env)
        t = time.time()
        try:
            p = subprocess.run(cmd, cwd=cwd or self.scratch, env=e, stdout=subprocess.PIPE, stderr=subprocess.PIPE,
                               timeout=timeout, input=stdin)
            return p.returncode, p.stdout.decode('latin-1'), p.stderr.decode('latin-1'), False, time.time() - t
        except subprocess.TimeoutExpired as ex:
            so = (ex.stdout or b'').decode('latin-1')
            se = (ex.stderr or b'').decode('latin-1')
            return -999, so, se, True, time.time() - t

    def run_cases(self, exe, base_args, total_cases, per_case_timeout=60.0, workers=NWORK, env=None,
                  max_restarts=40, chunk=None, label=''):
        """Run cases [0,total) of a case-based harness split over workers; restart after a crash at case+1.
        Returns list of WorkerOut (one per process run)."""
        workers = max(1, min(workers, total_cases))
        bounds = [(total_cases * i // workers, total_cases * (i + 1) // workers) for i in range(workers)]
        outs = []

        def one(b):
            lo, hi = b
            restarts = 0
            res = []
            wdir = os.path.join(self.scratch, 'w%d' % lo)   # own cwd: fix8's global logger rotates files there
            os.makedirs(wdir, exist_ok=True)
            while lo < hi:
                n = hi - lo
                cmd = [exe] + base_args + ['--seed', str(self.seed), '--start', str(lo), '--cases', str(n)]
                rc, so, se, to, dt = self.run_proc(cmd, timeout=max(60.0, per_case_timeout * n), env=env, cwd=wdir)
                w = WorkerOut()
                parse_stdout(so, w)
                w.rc, w.stderr, w.timeout, w.cmd = rc, se, to, cmd
                w.san = parse_sanitizer(se)
                res.append(w)
                if w.done and not to:
                    break
                # died: find last case
                last = None
                for m in re.finditer(r'^@CASE (\d+)$', se, re.M):
                    last = int(m.group(1))
                if last is None:
                    last = lo
                w.died_at = last
                w.first = lo
                restarts += 1
                if restarts > max_restarts:
                    w.gave_up = (last + 1, hi)
                    break
                lo = last + 1
            return res
        with ThreadPoolExecutor(max_workers=workers) as ex:
            for r in ex.map(one, bounds):
                outs.extend(r)
        self.absorb(outs, exe, base_args, label)
        return outs

    def absorb(self, outs, exe, base_args, label=''):
        for w in outs:
            for k, v in w.stats.items():
                self.stats[k] = self.stats.get(k, 0) + v
            for k, v in w.hashes.items():
                self.hashes.setdefault(k, set()).update(v)
            for s in w.samples:
                if len(self.samples) < 8:
                    self.samples.append(s)
            for k, d in w.viol:
                self.violations.append(Violation(k, d, {'cmd': w.cmd}))
            seen = set()
            for case, cls, key, detail in w.san:
                if (key, case) in seen:
                    continue
                seen.add((key, case))
                self.violations.append(Violation(key, detail, {
                    'cmd': [exe] + base_args + ['--seed', str(self.seed), '--start', str(case or 0), '--cases', '1']}))
            if not w.done or w.timeout:
                died = getattr(w, 'died_at', None)
                hung = '@HANG' in w.stderr[-200:]
                if hung:
                    cls = None
                    for m in re.finditer(r'^@CLASS (.*)$', w.stderr[-4000:], re.M):
                        cls = m.group(1).strip()
                    # a watchdog expiry is re-run once, alone and with a generous limit, before it is called a hang (machine load)
                    cs, ba = 180, list(base_args)
                    if '--case-seconds' in ba:      # a check that budgets more than that for one case (long enumerations) keeps its own limit
                        k = ba.index('--case-seconds')
                        cs = max(cs, int(ba[k + 1]))
                        del ba[k:k + 2]
                    rcmd = [exe] + ba + ['--seed', str(self.seed), '--start', str(died or 0), '--cases', '1', '--case-seconds', str(cs)]
                    self._hang_reruns = getattr(self, '_hang_reruns', 0) + 1
                    if self._hang_reruns <= 3:      # once a hang has been reproduced a few times further expiries are taken at face value
                        rc2, so2, se2, to2, _ = self.run_proc(rcmd, timeout=cs + 60)
                    else:
                        so2, se2, to2 = '', '', True
                    if 'DONE' in so2 and not to2:
                        self.stats['watchdog_expiries_not_reproduced'] = self.stats.get('watchdog_expiries_not_reproduced', 0) + 1
                        w2 = WorkerOut()
                        parse_stdout(so2, w2)
                        for k, d in w2.viol:
                            self.violations.append(Violation(k, d, {'cmd': rcmd}))
                        for case, cls2, key, detail in parse_sanitizer(se2):
                            self.violations.append(Violation(key, detail, {'cmd': rcmd}))
                    else:
                        self.violations.append(Violation('hang|' + (cls or label or os.path.basename(exe)),
                                                         'per-case watchdog expired at case %s, and again when re-run alone with %d s' % (died, cs),
                                                         {'cmd': rcmd}))
                elif w.timeout:
                    self.violations.append(Violation('hang|' + (label or os.path.basename(exe)),
                                                     'watchdog expired at case %s' % died,
                                                     {'cmd': w.cmd, 'case': died, 'watchdog': True}))
                elif not w.san or 'hard rss limit' in w.stderr[-3000:]:
                    tail = w.stderr[-600:].replace('\n', ' / ')
                    sig = -w.rc if w.rc < 0 else w.rc
                    self.violations.append(Violation('crash:rc%s|%s' % (sig, label or os.path.basename(exe)),
                                                     'process died at case %s: %s' % (died, tail),
                                                     {'cmd': w.cmd, 'case': died}))
                if getattr(w, 'gave_up', None):
                    self.inconclusive.append('too many crashes; cases %s..%s not explored' % w.gave_up)

    def add_violation(self, key, detail, replay=None):
        self.violations.append(Violation(key, detail, replay))

    # ---- finishing
    def finish(self):
        wall = time.time() - self.t0
        known = load_known(self.pid)
        # watchdog expiries are inconclusive unless reproduced (caller re-runs); here: classify
        new, listed = {}, {}
        for v in self.violations:
            kf = match_known(known, v.key)
            (listed if kf else new).setdefault(v.key, []).append((v, kf))
        names = self.distinct_names or list(self.hashes.keys())
        distinct = sum(len(self.hashes.get(n, ())) for n in names)
        cov = {
            'evaluations': int(self.evaluations or sum(v for k, v in self.stats.items() if k in self.extra.get('eval_stats', []))),
            'distinct_nontrivial': int(distinct),
            'rule': self.rule,
            'samples': self.samples[:8] if self.samples else [],
            'exhaustive': bool(self.exhaustive),
            'counters': {k: v for k, v in sorted(self.stats.items())},
            'distinct_by_kind': {k: len(v) for k, v in self.hashes.items()},
            'known_findings_observed': sorted(listed.keys()),
            'new_violation_keys': sorted(new.keys()),
        }
        for k, v in self.extra.items():
            if k != 'eval_stats':
                cov[k] = v
        ev = {
            'property_id': self.pid, 'tier': self.tier, 'seed': int(self.seed), 'level': self.level,
            'coverage': cov, 'assumptions': self.assumptions, 'wall_s': round(wall, 2),
            'violations': len(new),
        }
        status = 0
        if self.inconclusive and not new:
            status = 2
        if cov['evaluations'] < 1 or distinct < 2 or not cov['samples']:
            if not new:
                self.inconclusive.append('observed too little: evaluations=%d distinct=%d samples=%d'
                                         % (cov['evaluations'], distinct, len(cov['samples'])))
                status = 2
        if status == 2:
            ev['coverage']['inconclusive'] = self.inconclusive
        os.makedirs(os.path.join(OUT, 'evidence'), exist_ok=True)
        if status != 2:
            with open(os.path.join(OUT, 'evidence', self.pid + '.json'), 'w') as f:
                json.dump(ev, f, indent=1, sort_keys=True)
                f.write('\n')
        for key, lst in sorted(listed.items()):
            kf = lst[0][1]
            print('KNOWN-FINDING: property=%s %s [%s] (%d occurrences; e.g. %s)' % (
                self.pid, kf['what'], key, len(lst), lst[0][0].detail[:160]))
        if new:
            rdir = os.path.join(OUT, 'replays', self.pid)
            os.makedirs(rdir, exist_ok=True)
            for key, lst in sorted(new.items()):
                v = lst[0][0]
                path = os.path.join(rdir, hashlib.sha1(key.encode()).hexdigest()[:12] + '.json')
                with open(path, 'w') as f:
                    json.dump({'property': self.pid, 'key': key, 'detail': v.detail, 'occurrences': len(lst),
                               'seed': self.seed, 'tier': self.tier, 'replay': v.replay,
                               'others': [x[0].detail for x in lst[1:4]]}, f, indent=1)
                print('VIOLATION property=%s replay=%s' % (self.pid, path))
                print('  key: %s' % key)
                print('  detail: %s' % v.detail[:500])
            status = 1
        print('%s %s tier=%s seed=%s evaluations=%d distinct=%d new_violations=%d known=%d wall=%.1fs' % (
            self.pid, {0: 'HELD', 1: 'VIOLATED', 2: 'INCONCLUSIVE'}[status], self.tier, self.seed,
            cov['evaluations'], distinct, len(new), len(listed), wall))
        for r in self.inconclusive:
            print('  inconclusive: ' + r)
        shutil.rmtree(self.scratch, ignore_errors=True)
        sys.stdout.flush()
        sys.exit(status)


def load_known(pid):
    p = os.path.join(VERIF, 'known_findings.json')
    try:
        data = json.load(open(p))
    except OSError:
        return []
    return [e for e in data.get('findings', []) if e.get('property') == pid and e.get('status') == 'known']


def match_known(known, key):
    for e in known:
        if re.fullmatch(e['match'], key):
            return e
    return None
