"""Message generator over the independent schema model: intended content (tag, canonical wire text,
group nesting) in schema order + a codec_exec script that builds it through the public API."""
import random


class Item:
    """intended field: num, text (bytes, the expected wire text), elems (None or list of element item lists)"""
    __slots__ = ('num', 'text', 'elems')

    def __init__(self, num, text, elems=None):
        self.num, self.text, self.elems = num, text, elems


PRINTABLE = [c for c in range(32, 127)]


def days_to_civil(z):
    z += 719468
    era = (z if z >= 0 else z - 146096) // 146097
    doe = z - era * 146097
    yoe = (doe - doe // 1460 + doe // 36524 - doe // 146096) // 365
    y = yoe + era * 400
    doy = doe - (365 * yoe + yoe // 4 - yoe // 100)
    mp = (5 * doy + 2) // 153
    d = doy - (153 * mp + 2) // 5 + 1
    m = mp + 3 if mp < 10 else mp - 9
    return (y + (1 if m <= 2 else 0), m, d)


class Gen:
    def __init__(self, schema, rng, max_str=48, max_elems=3, opt_pct=35, negative_ints=True, big_len_fields=True):
        self.s, self.r = schema, rng
        self.max_str, self.max_elems, self.opt_pct = max_str, max_elems, opt_pct
        self.negative_ints = negative_ints
        self.force = set()          # field numbers always included (at any nesting level; groups get >= 1 element)
        self.override = {}          # field number -> bytes value to use
        self.data_after = {}     # length num -> data num
        self.data_nums = set()
        for _, sect in schema.all_sections():
            for ln, dt in schema.data_pairs(sect):
                self.data_after[ln.num] = dt.num
                self.data_nums.add(dt.num)

    # ---- values
    def string(self, lo=1, hi=None, alphabet=None):
        r = self.r
        n = r.randint(lo, hi or self.max_str)
        al = alphabet or PRINTABLE
        s = bytes(r.choice(al) for _ in range(n))
        return s

    def date(self):
        y, m, d = days_to_civil(self.r.randrange(0, 47482))
        return y, m, d

    def value(self, fld, data_len=None):
        r = self.r
        t = fld.type
        vals = fld.values
        if t == 'CHAR':
            vals = [v for v in vals if len(v[0]) == 1]   # a CHAR holds one character (FIX44 lists '10','11'.. for MiscFeeType)
        if vals and r.random() < 0.8 and t not in ('BOOLEAN',):
            e = r.choice(vals)[0]
            if 'MULTIPLE' in t and r.random() < 0.4:
                e = ' '.join(r.choice(fld.values)[0] for _ in range(r.randint(1, 3)))
            return e.encode('latin-1')
        if t == 'INT':
            k = r.random()
            if k < 0.15:
                v = r.choice([0, 1, -1, 2147483647, -2147483648, -2147483647, 10, -10, 99, 100, -100, 1000000000])
            elif k < 0.6:
                v = r.randint(-100000, 100000)
            else:
                v = r.randint(-2147483648, 2147483647)
            if not self.negative_ints:
                v = abs(v) if v != -2147483648 else 0
            return str(v).encode()
        if t in ('LENGTH',):
            return str(r.choice([0, 1, 7, 100, 2047, 2048, 4096, 65535]) if r.random() < 0.5 else r.randint(0, 9999)).encode()
        if t in ('SEQNUM', 'TAGNUM', 'NUMINGROUP'):
            return str(r.choice([0, 1, 2, 999999, 2147483647]) if r.random() < 0.2 else r.randint(0, 1000000)).encode()
        if t == 'DAYOFMONTH':
            return str(r.randint(1, 31)).encode()
        if t == 'CHAR':
            return bytes([r.randint(33, 126)])
        if t == 'BOOLEAN':
            return r.choice([b'Y', b'N'])
        if fld.base == 'float':
            k = r.random()
            whole = r.choice([0, 1, 9, 10, 99, 100, 2147483646]) if k < 0.2 else r.randint(0, 10 ** r.randint(1, 9))
            if whole > 2147483646:
                whole = 2147483646
            nd = r.randint(0, 2)
            frac = r.randint(0, 10 ** nd - 1) if nd else 0
            neg = '-' if (r.random() < 0.3 and (whole or frac)) else ''
            # canonical text of the encoder at the default precision 2: trailing zeros trimmed, at least one fraction digit
            fs = (('%0*d' % (nd, frac)).rstrip('0') if nd else '') or '0'
            return ('%s%d.%s' % (neg, whole, fs)).encode()
        if t == 'UTCTIMESTAMP':
            y, m, d = self.date()
            return ('%04d%02d%02d-%02d:%02d:%02d.%03d' % (y, m, d, r.randrange(24), r.randrange(60), r.randrange(60), r.randrange(1000))).encode()
        if t in ('UTCTIMEONLY', 'UTCTIME'):
            return ('%02d:%02d:%02d.%03d' % (r.randrange(24), r.randrange(60), r.randrange(60), r.randrange(1000))).encode()
        if t in ('UTCDATE', 'UTCDATEONLY', 'LOCALMKTDATE'):
            return ('%04d%02d%02d' % self.date()).encode()
        if t == 'MONTHYEAR':
            y, m, d = self.date()
            return ('%04d%02d' % (y, m)).encode() if r.random() < 0.5 else ('%04d%02d%02d' % (y, m, d)).encode()
        if t in ('DATA', 'XMLDATA'):
            return self.string(1, 60)
        if t in ('CURRENCY', 'COUNTRY'):
            return self.string(3 if t == 'CURRENCY' else 2, 3 if t == 'CURRENCY' else 2, list(range(65, 91)))
        if 'MULTIPLE' in t:
            return b' '.join(self.string(1, 3, list(range(48, 58)) + list(range(65, 91))) for _ in range(r.randint(1, 3)))
        # STRING and the rest of the string family: any printable, incl '=' and blanks
        k = r.random()
        if k < 0.1:
            return self.string(1, 6, [61, 32, 65, 49])      # '=', ' ', 'A', '1'
        return self.string(1)

    # ---- structure
    def section(self, sect, depth=0, force=None):
        """-> list of Item in schema order"""
        r = self.r
        out = []
        members = sect.members
        for idx, m in enumerate(members):
            f = m.field
            if m.num in (8, 9, 35, 10):
                continue
            if idx > 0 and self.data_after.get(members[idx - 1].num) == m.num:
                continue    # a data field is emitted together with its length field
            take = m.required or r.randrange(100) < self.opt_pct or bool(force and m.num in force) or m.num in self.force
            nxt = members[idx + 1] if idx + 1 < len(members) else None
            if nxt is not None and self.data_after.get(m.num) == nxt.num:
                if take or nxt.required or nxt.num in self.force:
                    data = self.override.get(nxt.num) or self.value(nxt.field)
                    out.append(Item(m.num, str(len(data)).encode()))
                    out.append(Item(nxt.num, data))
                continue
            if not take:
                continue
            if m.group:
                cnt = r.choice([0, 1, 1, 2, 2, self.max_elems]) if depth < 3 else r.choice([0, 1])
                if (m.required or m.num in self.force) and cnt == 0:
                    cnt = 1
                elems = [self.element(m.group, depth + 1) for _ in range(cnt)]
                out.append(Item(m.num, str(cnt).encode(), elems))
            else:
                out.append(Item(m.num, self.override.get(m.num) or self.value(f)))
        return out

    def element(self, gsect, depth):
        items = self.section(gsect, depth)
        first = gsect.members[0]
        if not items or items[0].num != first.num:
            # every element starts with the group's first field
            if first.group:
                items.insert(0, Item(first.num, b'1', [self.element(first.group, depth + 1)]))
            else:
                items.insert(0, Item(first.num, self.value(first.field)))
        return items

    def message(self, mt):
        s = self.s
        hdr = self.section(s.header)
        body = self.section(s.messages[mt])
        trl = self.section(s.trailer)
        return {'msgtype': mt, 'header': hdr, 'body': body, 'trailer': trl}


def script_lines(msg, rng=None, shuffle=False):
    """codec_exec build steps; with shuffle the insertion order of fields (not of group elements) is permuted"""
    out = ['M ' + msg['msgtype']]

    def emit(items, kind):
        its = list(items)
        if shuffle and rng:
            rng.shuffle(its)
        for it in its:
            out.append('%s %d %s' % (kind, it.num, it.text.hex() or '00'))
            if it.elems is not None and it.elems:
                out.append('G %d %s' % (it.num, kind))
                for el in it.elems:
                    out.append('E')
                    emit(el, 'F')
                    out.append('e')
                out.append('g')
    emit(msg['header'], 'H')
    emit(msg['body'], 'F')
    emit(msg['trailer'], 'T')
    return out


def count_items(items):
    n = 0
    for it in items:
        n += 1
        if it.elems:
            for el in it.elems:
                n += count_items(el)
    return n


def shape(msg):
    """hashable shape: msgtype + nested tag structure (values ignored)"""
    def sh(items):
        return tuple((it.num, tuple(sh(e) for e in it.elems) if it.elems is not None else None) for it in items)
    return (msg['msgtype'], sh(msg['header']), sh(msg['body']), sh(msg['trailer']))


def max_depth(items, d=0):
    m = d
    for it in items:
        if it.elems:
            for el in it.elems:
                m = max(m, max_depth(el, d + 1))
    return m


def render(msg, schema_begin):
    """reference encoding of the intended message (used to build inputs for decode-only checks)"""
    def ser(items):
        b = b''
        for it in items:
            b += str(it.num).encode() + b'=' + it.text + b'\x01'
            if it.elems:
                for el in it.elems:
                    b += ser(el)
        return b
    body = b'35=' + msg['msgtype'].encode() + b'\x01' + ser(msg['header']) + ser(msg['body']) + ser(msg['trailer'])
    head = b'8=' + schema_begin.encode() + b'\x019=' + str(len(body)).encode() + b'\x01'
    whole = head + body
    return whole + b'10=' + ('%03d' % (sum(whole) % 256)).encode() + b'\x01'
