"""Co-process driver for the interactive harnesses (session_sim, ...): command in, observation lines out."""
import os
import subprocess
import tempfile

from runner import SAN_ENV


class SimDied(Exception):
    pass


class SimProc:
    def __init__(self, exe, args, cwd, tag='sim'):
        self.exe, self.args, self.cwd = exe, list(args), cwd
        os.makedirs(cwd, exist_ok=True)
        self.errpath = os.path.join(cwd, '%s.%d.stderr' % (tag, os.getpid()))
        self.p = None
        self.log = []           # commands of the current case (for replay files)
        self.all_stderr = ''
        self.start()

    def start(self):
        e = dict(os.environ)
        e.update(SAN_ENV)
        self.errf = open(self.errpath, 'ab')
        self.p = subprocess.Popen([self.exe] + self.args, cwd=self.cwd, env=e, stdin=subprocess.PIPE, stdout=subprocess.PIPE,
                                  stderr=self.errf, bufsize=0)
        self.rd = self.p.stdout

    def begin_case(self, n):
        self.log = []
        self.cmd('CASE %d' % n)

    def cmd(self, line):
        """send one command, return the list of response lines (without the terminating '.')"""
        self.log.append(line)
        try:
            self.p.stdin.write(line.encode('latin-1') + b'\n')
            self.p.stdin.flush()
        except (BrokenPipeError, OSError):
            raise SimDied(line)
        out = []
        buf = b''
        while True:
            chunk = self.rd.readline()
            if not chunk:
                raise SimDied(line)
            l = chunk.rstrip(b'\n').decode('latin-1')
            if l == '.':
                return out
            out.append(l)

    def stderr_text(self):
        try:
            self.errf.flush()
            return open(self.errpath, 'rb').read().decode('latin-1')
        except OSError:
            return ''

    def restart(self):
        self.close()
        self.start()

    def close(self):
        try:
            if self.p and self.p.poll() is None:
                try:
                    self.p.stdin.write(b'QUIT\n')
                    self.p.stdin.flush()
                    self.p.stdin.close()
                except OSError:
                    pass
                try:
                    self.p.wait(timeout=20)
                except subprocess.TimeoutExpired:
                    self.p.kill()
            elif self.p:
                self.p.wait()
        finally:
            try:
                self.errf.close()
            except OSError:
                pass
