"""Independent tokenizer / validator for encoded FIX messages (tag=value SOH), directed by the
independent schema model (fixschema).  Shares nothing with fix8's decoder."""
from decimal import Decimal, InvalidOperation

SOH = 1


class WireError(Exception):
    def __init__(self, key, msg):
        Exception.__init__(self, msg)
        self.key = key


def data_pairs_map(schema):
    """length tag -> data tag for every (LENGTH, DATA) adjacent pair of any section"""
    m = {}
    for _, sect in schema.all_sections():
        for ln, dt in schema.data_pairs(sect):
            m[ln.num] = dt.num
    return m


def tokenize(b, pairs):
    """-> list of (tag:int, value:bytes, start offset, end offset (after SOH)); raises WireError"""
    out = []
    i, n = 0, len(b)
    pending = None
    while i < n:
        j = i
        while j < n and 48 <= b[j] <= 57:
            j += 1
        if j == i or j >= n or b[j] != 61:
            raise WireError('token-not-tag-equals', 'offset %d: expected decimal tag and "="' % i)
        tag = int(b[i:j])
        if j - i > 1 and b[i] == 48:
            raise WireError('tag-leading-zero', 'offset %d' % i)
        k = j + 1
        if pending is not None and tag == pending[0]:
            e = k + pending[1]
            if e >= n or b[e] != SOH:
                raise WireError('data-length-mismatch', 'tag %d: %d bytes announced, no SOH after them' % (tag, pending[1]))
            out.append((tag, bytes(b[k:e]), i, e + 1))
            i = e + 1
            pending = None
            continue
        pending = None
        e = b.find(b'\x01', k)
        if e < 0:
            raise WireError('token-no-soh', 'tag %d at offset %d has no terminating SOH' % (tag, i))
        val = bytes(b[k:e])
        out.append((tag, val, i, e + 1))
        if tag in pairs and val.isdigit():
            pending = (pairs[tag], int(val))
        i = e + 1
    return out


class PNode:
    """parsed field: tag, value, and for groups the list of elements (each a list of PNode)"""
    __slots__ = ('tag', 'val', 'elems')

    def __init__(self, tag, val, elems=None):
        self.tag, self.val, self.elems = tag, val, elems


def _parse_section(toks, i, sect, stop_tags, strict_order, path):
    """consume tokens belonging to `sect` starting at i; returns (nodes, next index)"""
    mem = sect.by_num()
    nodes, seen, lastpos = [], set(), 0
    while i < len(toks):
        tag, val = toks[i][0], toks[i][1]
        if tag not in mem or tag in stop_tags:
            break
        m = mem[tag]
        if tag in seen:
            break   # repeated: caller decides (next group element or error)
        seen.add(tag)
        if strict_order and m.pos < lastpos:
            raise WireError('order-not-schema-position', '%s: tag %d (position %d) after position %d' % (path, tag, m.pos, lastpos))
        lastpos = m.pos
        i += 1
        if m.group:
            try:
                cnt = int(val)
            except ValueError:
                raise WireError('group-count-not-numeric', '%s: tag %d' % (path, tag))
            elems = []
            first = m.group.members[0].num
            for e in range(cnt):
                if i >= len(toks) or toks[i][0] != first:
                    raise WireError('group-element-missing-first-field', '%s: group %d element %d of %d does not start with %d' % (path, tag, e + 1, cnt, first))
                el, i = _parse_section(toks, i, m.group, (), strict_order, path + '/' + str(tag))
                elems.append(el)
            if i < len(toks) and toks[i][0] == first and cnt > 0:
                raise WireError('group-count-too-small', '%s: group %d announces %d elements, more follow' % (path, tag, cnt))
            nodes.append(PNode(tag, val, elems))
        else:
            nodes.append(PNode(tag, val))
    return nodes, i


def parse_message(b, schema, pairs, strict_order=True):
    """full well-formedness check of an encoded message; returns dict(header, body, trailer, msgtype)"""
    toks = tokenize(b, pairs)
    if len(toks) < 4:
        raise WireError('too-few-fields', '%d fields' % len(toks))
    if [t[0] for t in toks[:3]] != [8, 9, 35]:
        raise WireError('preamble-not-8-9-35', 'first tags %s' % [t[0] for t in toks[:3]])
    if toks[-1][0] != 10:
        raise WireError('last-field-not-checksum', 'last tag %d' % toks[-1][0])
    # body length: bytes between the end of field 9 and the start of field 10
    try:
        bl = int(toks[1][1])
    except ValueError:
        raise WireError('bodylength-not-numeric', repr(toks[1][1]))
    if not toks[1][1].isdigit() or (len(toks[1][1]) > 1 and toks[1][1][0:1] == b'0'):
        raise WireError('bodylength-not-canonical', repr(toks[1][1]))
    actual = toks[-1][2] - toks[1][3]
    if bl != actual:
        raise WireError('bodylength-wrong', 'BodyLength=%d, actual %d' % (bl, actual))
    ck = toks[-1][1]
    if len(ck) != 3 or not ck.isdigit():
        raise WireError('checksum-not-3-digits', repr(ck))
    want = sum(b[:toks[-1][2]]) % 256
    if int(ck) != want:
        raise WireError('checksum-wrong', 'CheckSum=%s, computed %03d' % (ck.decode(), want))
    if toks[-1][3] != len(b):
        raise WireError('bytes-after-checksum', '%d trailing bytes' % (len(b) - toks[-1][3]))
    mt = toks[2][1].decode('latin-1')
    if mt not in schema.messages:
        raise WireError('unknown-msgtype', mt)
    body_sect = schema.messages[mt]
    hdr, i = _parse_section(toks, 0, schema.header, (), strict_order, 'header')
    body, i = _parse_section(toks, i, body_sect, (), strict_order, mt)
    trl, i = _parse_section(toks, i, schema.trailer, (), strict_order, 'trailer')
    if i != len(toks):
        t = toks[i][0]
        where = 'header' if t in schema.header.by_num() else 'trailer' if t in schema.trailer.by_num() else 'body' if t in body_sect.by_num() else 'unknown'
        raise WireError('section-interleaving-or-illegal-tag', 'tag %d (%s field) at token %d not legal here' % (t, where, i))
    return {'msgtype': mt, 'header': hdr, 'body': body, 'trailer': trl, 'tokens': toks}


def value_equal(field, got, want):
    """compare a wire value with the intended text for the field's declared type"""
    base = field.base
    if got == want:
        return True
    if base == 'float':
        try:
            return Decimal(got.decode()) == Decimal(want.decode())
        except (InvalidOperation, UnicodeDecodeError):
            return False
    return False


def compare_nodes(schema, nodes, intended, path, diffs):
    """nodes: parsed PNodes; intended: list of gen items in schema order. Appends (key, text) to diffs."""
    if [n.tag for n in nodes] != [it.num for it in intended]:
        diffs.append(('fields-differ', '%s: wire tags %s intended %s' % (path, [n.tag for n in nodes], [it.num for it in intended])))
        return
    for n, it in zip(nodes, intended):
        f = schema.by_num[n.tag]
        if it.elems is not None:
            if n.elems is None or len(n.elems) != len(it.elems):
                diffs.append(('group-shape-differs', '%s: group %d' % (path, n.tag)))
                continue
            try:
                if int(n.val) != len(it.elems):
                    diffs.append(('group-count-value', '%s: group %d count %r for %d elements' % (path, n.tag, n.val, len(it.elems))))
            except ValueError:
                diffs.append(('group-count-value', '%s: group %d count %r' % (path, n.tag, n.val)))
            for k, (ne, ie) in enumerate(zip(n.elems, it.elems)):
                compare_nodes(schema, ne, ie, '%s/%d[%d]' % (path, n.tag, k), diffs)
        elif not value_equal(f, n.val, it.text):
            cls = f.type
            if f.base == 'int' and it.text.startswith(b'-'):
                cls += '-negative'
            diffs.append(('value-differs|' + cls, '%s: tag %d got %r intended %r' % (path, n.tag, n.val[:80], it.text[:80])))
